// ---------- stand-ins for the parse_module glue unit ----------
#[derive(Clone, Copy)]
pub struct TextRange { pub start: u32, pub end: u32 }
// R29: `v.clone().into_iter().filter(|&t| f(t)).collect()` on a vector of Copy elements - the standard library's meaning of
// filter + collect, stated without a witness over the closure's ensures relation: whenever `keep` marks exactly the elements the
// predicate cannot have rejected (and only those it cannot have accepted), the result is the marked subsequence, in order.
spec fn select<T>(v: Seq<T>, keep: Seq<bool>, n: int) -> Seq<T> decreases n {
    if n <= 0 { Seq::empty() } else if keep[n - 1] { select(v, keep, n - 1).push(v[n - 1]) } else { select(v, keep, n - 1) }
}
spec fn filt_wit(keep: Seq<bool>) -> bool { true }   // trigger marker
#[verifier::external_body]
fn verif_vec_filter<T: Copy, F: Fn(T) -> bool>(v: &Vec<T>, f: F) -> (r: Vec<T>)
    requires forall|i: int| 0 <= i < v@.len() ==> f.requires((#[trigger] v@[i],)),
    ensures forall|keep: Seq<bool>| #![trigger filt_wit(keep)] (keep.len() == v@.len()
            && (forall|i: int| 0 <= i < v@.len() ==> (#[trigger] keep[i] ==> !f.ensures((v@[i],), false)) && (!keep[i] ==> !f.ensures((v@[i],), true))))
        ==> r@ == select(v@, keep, v@.len() as int),
{ v.clone().into_iter().filter(|&t| f(t)).collect() }
// ===== after the extracted items =====
spec fn keep_of(raw: Seq<LexToken>) -> Seq<bool> { Seq::new(raw.len(), |i: int| !is_trivia_spec(raw[i].kind)) }
proof fn lemma_select(raw: Seq<LexToken>, n: int)
    requires 0 <= n <= raw.len(), forall|i: int| 0 <= i < raw.len() ==> is_tok(#[trigger] raw[i].kind)
    ensures select(raw, keep_of(raw), n).len() == n_real(raw, n),
        forall|j: int| 0 <= j < select(raw, keep_of(raw), n).len() ==> is_tok(#[trigger] select(raw, keep_of(raw), n)[j].kind)
    decreases n
{
    if n > 0 { lemma_select(raw, n - 1); }
}
// the trivia-filter statement of parse_module; its postcondition is, textually, what verif_parse (contracts/parser_top_bt.rs) requires
fn verif_filter<'i>(@RAW@: Vec<LexToken<'i>>) -> (r: Vec<LexToken<'i>>)
    requires forall|i: int| 0 <= i < @RAW@@.len() ==> is_tok(#[trigger] @RAW@@[i].kind),   // the lexer yields token kinds only (assumption i)
    ensures @ENSURES@
{
    proof { lemma_select(@RAW@@, @RAW@@.len() as int); assert(filt_wit(keep_of(@RAW@@))); }
    let tokens = @FILTER@;
    tokens
}
