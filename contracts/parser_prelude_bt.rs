// ---------- spec prelude for the tree builder (hand-written specification; not extracted) ----------
spec fn btag(e: BEv) -> int { match e { BEv::Start(_) => 1, BEv::Finish => -1, BEv::Token(..) => 0 } }
#[verifier::opaque]
spec fn bdepth(t: Seq<BEv>) -> int decreases t.len() {
    if t.len() == 0 { 0 } else { bdepth(t.drop_last()) + btag(t.last()) }
}
// the leaves, in order
#[verifier::opaque]
spec fn btoks(t: Seq<BEv>) -> Seq<(u16, Seq<char>)> decreases t.len() {
    if t.len() == 0 { Seq::empty() } else {
        match t.last() { BEv::Token(k, s) => btoks(t.drop_last()).push((k, s)), _ => btoks(t.drop_last()) }
    }
}
// the first call opens the root, and every non-empty prefix is inside it
#[verifier::opaque]
spec fn binside(t: Seq<BEv>) -> bool {
    t.len() >= 1 && t[0] is Start && forall|j: int| 1 <= j <= t.len() ==> bdepth(#[trigger] t.take(j)) >= 1
}
// what rowan's GreenNodeBuilder::finish needs: exactly one root node, everything inside it, balanced
spec fn single_root(t: Seq<BEv>) -> bool {
    t.len() >= 2 && binside(t.drop_last()) && t.last() is Finish && bdepth(t) == 0
}
proof fn lemma_bpush(t: Seq<BEv>, e: BEv)
    ensures bdepth(t.push(e)) == bdepth(t) + btag(e),
        btoks(t.push(e)) == (match e { BEv::Token(k, s) => btoks(t).push((k, s)), _ => btoks(t) }),
        (t.len() == 0 && e is Start) ==> binside(t.push(e)),
        (binside(t) && bdepth(t) + btag(e) >= 1) ==> binside(t.push(e)),
{
    reveal_with_fuel(bdepth, 2); reveal_with_fuel(btoks, 2); reveal(binside);
    let u = t.push(e);
    assert(u.drop_last() =~= t);
    if t.len() == 0 && e is Start {
        assert forall|j: int| 1 <= j <= u.len() implies bdepth(#[trigger] u.take(j)) >= 1 by { assert(u.take(j) =~= u); assert(bdepth(t) == 0); }
    }
    if binside(t) && bdepth(t) + btag(e) >= 1 {
        assert forall|j: int| 1 <= j <= u.len() implies bdepth(#[trigger] u.take(j)) >= 1 by {
            if j == u.len() { assert(u.take(j) =~= u); } else { assert(u.take(j) =~= t.take(j)); }
        }
    }
}
proof fn lemma_binside_depth(t: Seq<BEv>)
    requires binside(t)
    ensures bdepth(t) >= 1, t.len() >= 1
{ reveal(binside); assert(t.take(t.len() as int) =~= t); }
// start_node / finish_node on a trace (the two non-token calls build_tree makes)
proof fn lemma_bstart(t: Seq<BEv>, k: u16)
    ensures bdepth(t.push(BEv::Start(k))) == bdepth(t) + 1, btoks(t.push(BEv::Start(k))) == btoks(t),
        (t.len() == 0 || binside(t)) ==> binside(t.push(BEv::Start(k))),
{ lemma_bpush(t, BEv::Start(k)); if binside(t) { lemma_binside_depth(t); } }
proof fn lemma_bfinish(t: Seq<BEv>)
    ensures bdepth(t.push(BEv::Finish)) == bdepth(t) - 1, btoks(t.push(BEv::Finish)) == btoks(t),
        (binside(t) && bdepth(t) >= 2) ==> binside(t.push(BEv::Finish)),
        (binside(t) && bdepth(t) == 1) ==> single_root(t.push(BEv::Finish)),
{ lemma_bpush(t, BEv::Finish); if binside(t) { lemma_binside_depth(t); } assert(t.push(BEv::Finish).drop_last() =~= t); }

spec fn raw_tok(src: Seq<char>, t: LexToken) -> (u16, Seq<char>) { (t.kind as u16, str_slice(src, t.range)) }
// the first n raw tokens as (kind, text) pairs: what the leaves of the tree have to be
spec fn raw_prefix(raw: Seq<LexToken>, src: Seq<char>, n: int) -> Seq<(u16, Seq<char>)> {
    Seq::new(n as nat, |i: int| raw_tok(src, raw[i]))
}
// trivia = the kinds between the code's own anchors WHITESPACE_FIRST and DOC_COMMENT_LAST (what parse_module filters out)
spec fn is_trivia_spec(k: SyntaxKind) -> bool {
    (SyntaxKind::WHITESPACE_FIRST as u16) <= (k as u16) <= (SyntaxKind::DOC_COMMENT_LAST as u16)
}
spec fn is_ws_spec(k: SyntaxKind) -> bool { (SyntaxKind::WHITESPACE_FIRST as u16) <= (k as u16) <= (SyntaxKind::WHITESPACE_LAST as u16) }
spec fn is_doc_spec(k: SyntaxKind) -> bool { (SyntaxKind::DOC_COMMENT_FIRST as u16) <= (k as u16) <= (SyntaxKind::DOC_COMMENT_LAST as u16) }
// number of non-trivia tokens among the first n raw tokens
spec fn n_real(raw: Seq<LexToken>, n: int) -> int decreases n {
    if n <= 0 { 0 } else { n_real(raw, n - 1) + (if is_trivia_spec(raw[n - 1].kind) { 0int } else { 1int }) }
}
proof fn lemma_n_real_mono(raw: Seq<LexToken>, a: int, b: int)
    requires 0 <= a <= b
    ensures n_real(raw, a) <= n_real(raw, b),
        (forall|i: int| a <= i < b ==> is_trivia_spec(#[trigger] raw[i].kind)) ==> n_real(raw, a) == n_real(raw, b),
        (exists|i: int| a <= i < b && !is_trivia_spec(#[trigger] raw[i].kind)) ==> n_real(raw, a) < n_real(raw, b),
    decreases b - a
{
    if a < b {
        lemma_n_real_mono(raw, a, b - 1);
        if exists|i: int| a <= i < b && !is_trivia_spec(#[trigger] raw[i].kind) {
            let i = choose|i: int| a <= i < b && !is_trivia_spec(#[trigger] raw[i].kind);
            if i < b - 1 { assert(a <= i < b - 1 && !is_trivia_spec(raw[i].kind)); }
        }
    }
}
proof fn lemma_take_step(s: Seq<Event>, i: int)
    requires 0 <= i < s.len()
    ensures n_adv(s.take(i + 1)) == n_adv(s.take(i)) + tag_adv(s[i]), depth(s.take(i + 1)) == depth(s.take(i)) + tag_depth(s[i]),
{
    reveal_with_fuel(n_adv, 2); reveal_with_fuel(depth, 2);
    assert(s.take(i + 1).drop_last() =~= s.take(i));
}
proof fn lemma_n_adv_mono(s: Seq<Event>, i: int)
    requires 0 <= i <= s.len()
    ensures n_adv(s.take(i)) <= n_adv(s)
    decreases s.len() - i
{
    if i < s.len() { lemma_take_step(s, i); lemma_n_adv_mono(s, i + 1); } else { assert(s.take(i) =~= s); }
}
// the builder trace after eating n raw tokens starting at raw[pos]
spec fn push_toks(t: Seq<BEv>, raw: Seq<LexToken>, src: Seq<char>, pos: int, n: int) -> Seq<BEv> decreases n {
    if n <= 0 { t } else { push_toks(t, raw, src, pos, n - 1).push(BEv::Token(raw[pos + n - 1].kind as u16, str_slice(src, raw[pos + n - 1].range))) }
}
proof fn lemma_push_toks(t: Seq<BEv>, raw: Seq<LexToken>, src: Seq<char>, pos: int, n: int)
    requires 0 <= pos, 0 <= n, pos + n <= raw.len(), btoks(t) == raw_prefix(raw, src, pos)
    ensures bdepth(push_toks(t, raw, src, pos, n)) == bdepth(t),
        btoks(push_toks(t, raw, src, pos, n)) == raw_prefix(raw, src, pos + n),
        binside(t) ==> binside(push_toks(t, raw, src, pos, n)),
        t.len() >= 1 ==> push_toks(t, raw, src, pos, n).len() >= 1 && push_toks(t, raw, src, pos, n)[0] == t[0],
    decreases n
{
    if n > 0 {
        lemma_push_toks(t, raw, src, pos, n - 1);
        let u = push_toks(t, raw, src, pos, n - 1);
        let e = BEv::Token(raw[pos + n - 1].kind as u16, str_slice(src, raw[pos + n - 1].range));
        if binside(u) { lemma_binside_depth(u); }
        lemma_bpush(u, e);
        assert(raw_prefix(raw, src, pos + n - 1).push(raw_tok(src, raw[pos + n - 1])) =~= raw_prefix(raw, src, pos + n));
    } else {
        assert(raw_prefix(raw, src, pos + n) =~= raw_prefix(raw, src, pos));
    }
}
// state of the walk of build_tree before the first event
proof fn lemma_bt_entry(e: Seq<Event>, t: Seq<BEv>, raw: Seq<LexToken>, src: Seq<char>)
    requires e.len() >= 2, e.last() is Close, depth(e) == 0, rooted(e), t.len() == 0
    ensures depth(e.drop_last()) == 1, n_adv(e.drop_last()) == n_adv(e),
        forall|j: int| 1 <= j <= e.len() - 1 ==> depth(#[trigger] e.drop_last().take(j)) >= 1,
        btoks(t) == raw_prefix(raw, src, 0), n_real(raw, 0) == n_adv(e.drop_last().take(0)), bdepth(t) == depth(e.drop_last().take(0)),
        e.drop_last().take(e.len() - 1) == e.drop_last(),
{
    reveal(rooted);
    lemma_take_step(e, e.len() - 1);
    assert(e.take(e.len() - 1) =~= e.drop_last());
    assert(e.take(e.len() as int) =~= e);
    assert forall|j: int| 1 <= j <= e.len() - 1 implies depth(#[trigger] e.drop_last().take(j)) >= 1 by {
        assert(e.drop_last().take(j) =~= e.take(j));
    }
    reveal(btoks); reveal(bdepth); reveal(n_adv); reveal(depth);
    assert(raw_prefix(raw, src, 0) =~= Seq::empty());
    assert(e.drop_last().take(e.len() - 1) =~= e.drop_last());
}
// One lemma for every place where build_tree counts a run of raw tokens with take_while and then eats them (so the hint
// is the same at all six sites and survives reordering of the match arms).  The n tokens counted are trivia (tw_idx is
// the trigger of the take_while contract).  (A) eating exactly those; (B) eating one more - an Advance event - when the
// run stopped at a non-trivia token and the events still owe an Advance; (C) in the trailing flush, when no non-trivia
// token is owed any more, the run reaches the end of the raw tokens.
proof fn lemma_eat(t: Seq<BEv>, raw: Seq<LexToken>, src: Seq<char>, pos: int, n: int)
    requires 0 <= pos, 0 <= n, pos + n <= raw.len() <= usize::MAX, btoks(t) == raw_prefix(raw, src, pos),
        forall|i: usize| pos <= i < pos + n && #[trigger] tw_idx(i) ==> is_trivia_spec(raw[i as int].kind),
    ensures
        bdepth(push_toks(t, raw, src, pos, n)) == bdepth(t),
        btoks(push_toks(t, raw, src, pos, n)) == raw_prefix(raw, src, pos + n),
        binside(t) ==> binside(push_toks(t, raw, src, pos, n)),
        n_real(raw, pos + n) == n_real(raw, pos),
        t.len() >= 1 ==> push_toks(t, raw, src, pos, n).len() >= 1 && push_toks(t, raw, src, pos, n)[0] == t[0]
            && (pos + n + 1 <= raw.len() ==> push_toks(t, raw, src, pos, n + 1).len() >= 1 && push_toks(t, raw, src, pos, n + 1)[0] == t[0]),
        ((pos + n < raw.len() ==> !is_trivia_spec(raw[pos + n].kind)) && n_real(raw, pos) + 1 <= n_real(raw, raw.len() as int)) ==> {
            &&& pos + n + 1 <= raw.len()
            &&& bdepth(push_toks(t, raw, src, pos, n + 1)) == bdepth(t)
            &&& btoks(push_toks(t, raw, src, pos, n + 1)) == raw_prefix(raw, src, pos + n + 1)
            &&& (binside(t) ==> binside(push_toks(t, raw, src, pos, n + 1)))
            &&& n_real(raw, pos + n + 1) == n_real(raw, pos) + 1
        },
        ((pos + n < raw.len() ==> !is_trivia_spec(raw[pos + n].kind)) && n_real(raw, pos) == n_real(raw, raw.len() as int)) ==> pos + n == raw.len(),
{
    assert forall|i: int| pos <= i < pos + n implies is_trivia_spec(#[trigger] raw[i].kind) by { assert(tw_idx(i as usize)); }
    lemma_n_real_mono(raw, pos, pos + n);
    lemma_n_real_mono(raw, pos + n, raw.len() as int);
    if pos + n < raw.len() && !is_trivia_spec(raw[pos + n].kind) {
        assert(pos + n <= pos + n < raw.len() && !is_trivia_spec(raw[pos + n].kind));
        lemma_n_real_mono(raw, pos + n, pos + n + 1);
        lemma_push_toks(t, raw, src, pos, n + 1);
    } else if pos + n + 1 <= raw.len() {
        lemma_push_toks(t, raw, src, pos, n + 1);
    }
    lemma_push_toks(t, raw, src, pos, n);
}
// start_node / finish_node for every kind at once (so the hints need not name the kind)
proof fn lemma_bstart_all(t: Seq<BEv>)
    ensures forall|k: u16| #![trigger t.push(BEv::Start(k))] bdepth(t.push(BEv::Start(k))) == bdepth(t) + 1 && btoks(t.push(BEv::Start(k))) == btoks(t)
        && ((t.len() == 0 || binside(t)) ==> binside(t.push(BEv::Start(k)))),
{ assert forall|k: u16| #![trigger t.push(BEv::Start(k))] bdepth(t.push(BEv::Start(k))) == bdepth(t) + 1 && btoks(t.push(BEv::Start(k))) == btoks(t)
        && ((t.len() == 0 || binside(t)) ==> binside(t.push(BEv::Start(k)))) by { lemma_bstart(t, k); } }
