// ---------- stand-ins for the position-conversion unit (assumed contracts on dependencies and on LineMap / Vfs) ----------
#[derive(Clone, Copy, PartialEq, Eq)]
pub struct TextSize { pub raw: u32 }
impl vstd::std_specs::cmp::PartialOrdSpecImpl for TextSize {
    open spec fn obeys_partial_cmp_spec() -> bool { true }
    open spec fn partial_cmp_spec(&self, other: &TextSize) -> Option<core::cmp::Ordering> { Some(if self.raw < other.raw { core::cmp::Ordering::Less } else if self.raw == other.raw { core::cmp::Ordering::Equal } else { core::cmp::Ordering::Greater }) }
}
#[verifier::external]
impl PartialOrd for TextSize { fn partial_cmp(&self, other: &TextSize) -> Option<core::cmp::Ordering> { self.raw.partial_cmp(&other.raw) } }
pub struct TextRange { start: TextSize, end: TextSize }
impl TextRange {
    pub closed spec fn s(&self) -> u32 { self.start.raw }
    pub closed spec fn e(&self) -> u32 { self.end.raw }
    pub fn new(start: TextSize, end: TextSize) -> (r: TextRange) requires start.raw <= end.raw ensures r.s() == start.raw, r.e() == end.raw { TextRange { start, end } }
}
#[derive(Clone, Copy, PartialEq, Eq)]
pub struct Position { pub line: u32, pub character: u32 }
#[derive(Clone, Copy, PartialEq, Eq)]
pub struct Range { pub start: Position, pub end: Position }
pub struct Error { _x: u8 }
pub type Result<T> = core::result::Result<T, Error>;
#[verifier::external_body]
pub fn verif_error() -> Error { Error { _x: 0 } }
#[derive(Clone, Copy, PartialEq, Eq)]
pub struct FileId(pub u32);
// the line map by its contract; the Kani unit checks these contracts on the real LineMap for enumerated documents
#[verifier::external_body]
pub struct LineMap { _x: u8 }
impl LineMap {
    pub uninterp spec fn p4lc(&self, line: u32, col: u32) -> u32;
    pub uninterp spec fn end_col(&self, line: u32) -> u32;
    pub uninterp spec fn last(&self) -> u32;
    #[verifier::external_body]
    pub fn pos_for_line_col(&self, line: u32, col: u32) -> (r: TextSize) requires line <= self.last(), col <= self.end_col(line) ensures r.raw == self.p4lc(line, col) { unimplemented!() }
    #[verifier::external_body]
    pub fn end_col_for_line(&self, line: u32) -> (r: u32) requires line <= self.last() ensures r == self.end_col(line) { unimplemented!() }
    #[verifier::external_body]
    pub fn last_line(&self) -> (r: u32) ensures r == self.last() { unimplemented!() }
}
// the file table by its contract - what the vfs unit (contracts/vfs.spec) proves about the real Vfs under its invariant Vfs::wf:
// a FileId obtained from file_for_uri is a live slab key, and line_map_for_file needs one
#[verifier::external_body]
pub struct Url { _x: u8 }
#[verifier::external_body]
pub struct Vfs { _x: u8 }
impl Vfs {
    pub uninterp spec fn wf(&self) -> bool;
    pub uninterp spec fn live(&self, file: FileId) -> bool;
    pub uninterp spec fn known(&self, uri: &Url) -> Option<FileId>;
    pub uninterp spec fn lm(&self, file: FileId) -> LineMap;
    #[verifier::external_body]
    pub fn file_for_uri(&self, uri: &Url) -> (r: Result<FileId>) requires self.wf() ensures r is Ok <==> self.known(uri) is Some, r is Ok ==> r->Ok_0 == self.known(uri)->Some_0 && self.live(r->Ok_0) { unimplemented!() }
    #[verifier::external_body]
    pub fn line_map_for_file(&self, file: FileId) -> (r: Arc<LineMap>) requires self.live(file) ensures *r == self.lm(file) { unimplemented!() }
}
pub struct TextDocumentIdentifier { pub uri: Url }
pub struct TextDocumentPositionParams { pub text_document: TextDocumentIdentifier, pub position: Position }
pub struct FilePos { pub file_id: FileId, pub pos: TextSize }
impl FilePos { pub fn new(file_id: FileId, pos: TextSize) -> (r: Self) ensures r.file_id == file_id, r.pos == pos { FilePos { file_id, pos } } }

// a client position is valid for the line map
pub open spec fn pos_ok(lm: &LineMap, p: Position) -> bool { p.line <= lm.last() && p.character <= lm.end_col(p.line) }
