// ---------- stand-ins (assumed contracts on dependencies and on LineMap::normalize) ----------
#[derive(Clone, Copy, PartialEq, Eq)]
pub struct TextSize { pub raw: u32 }
#[derive(Clone, Copy)]
pub struct TextRange { pub start: u32, pub end: u32 }
impl TextSize {
    pub fn of(text: &str) -> (r: TextSize) requires text.len() <= u32::MAX ensures r.raw == text.len() { TextSize { raw: text.len() as u32 } }
}
impl TextRange {
    pub open spec fn wf(&self) -> bool { self.start <= self.end }   // TextRange::new asserts it
    pub fn start(self) -> (r: TextSize) ensures r.raw == self.start { TextSize { raw: self.start } }
    pub fn end(self) -> (r: TextSize) ensures r.raw == self.end { TextSize { raw: self.end } }
    pub fn len(self) -> (r: TextSize) requires self.start <= self.end ensures r.raw == self.end - self.start { TextSize { raw: self.end - self.start } }
    pub fn is_empty(self) -> (r: bool) ensures r == (self.start == self.end) { self.start == self.end }
}
impl vstd::std_specs::convert::FromSpecImpl<TextSize> for usize {
    open spec fn obeys_from_spec() -> bool { true }
    open spec fn from_spec(s: TextSize) -> Self { s.raw as usize }
}
impl From<TextSize> for usize { fn from(s: TextSize) -> usize { s.raw as usize } }
impl vstd::std_specs::cmp::PartialOrdSpecImpl for TextSize {
    open spec fn obeys_partial_cmp_spec() -> bool { true }
    open spec fn partial_cmp_spec(&self, other: &TextSize) -> Option<core::cmp::Ordering> { Some(if self.raw < other.raw { core::cmp::Ordering::Less } else if self.raw == other.raw { core::cmp::Ordering::Equal } else { core::cmp::Ordering::Greater }) }
}
#[verifier::external]
impl PartialOrd for TextSize { fn partial_cmp(&self, other: &TextSize) -> Option<core::cmp::Ordering> { self.raw.partial_cmp(&other.raw) } }
pub struct Error { _x: u8 }
pub type Result<T> = core::result::Result<T, Error>;
#[verifier::external_body]
pub fn verif_error() -> Error { Error { _x: 0 } }
#[derive(Clone, Copy, PartialEq, Eq)]
pub struct FileId(pub u32);

// std: Option::map_or (a refactoring of the edit path is likely to reach for it)
pub assume_specification<T, U, F: FnOnce(T) -> U>[ Option::<T>::map_or ](o: Option<T>, default: U, f: F) -> (r: U)
    requires o is Some ==> f.requires((o->Some_0,)),
    ensures o is None ==> r == default, o is Some ==> f.ensures((o->Some_0,), r);
pub assume_specification [ String::with_capacity ] (n: usize) -> (r: String) ensures r@ == Seq::<char>::empty();
pub assume_specification [ <Arc<str> as From<String>>::from ] (s: String) -> (r: Arc<str>) ensures r@ == s@;
// slab::Slab as a finite map from keys to values; indexing a vacant key panics ("invalid key")
#[verifier::external_body]
#[verifier::reject_recursive_types(T)]
pub struct Slab<T> { entries: Vec<T> }
impl<T> View for Slab<T> { type V = Map<int, T>; uninterp spec fn view(&self) -> Map<int, T>; }
impl<T> vstd::std_specs::core::IndexSpecImpl<usize> for Slab<T> {
    open spec fn index_req(&self, k: &usize) -> bool { self@.dom().contains(*k as int) }
}
#[verifier::external]
impl<T> std::ops::Index<usize> for Slab<T> { type Output = T; fn index(&self, k: usize) -> &T { &self.entries[k] } }
#[verifier::external]
impl<T> std::ops::IndexMut<usize> for Slab<T> { fn index_mut(&mut self, k: usize) -> &mut T { &mut self.entries[k] } }
pub assume_specification<T> [ <Slab<T> as std::ops::Index<usize>>::index ] (s: &Slab<T>, k: usize) -> (r: &T)
    ensures *r == s@[k as int];
pub assume_specification<T> [ <Slab<T> as std::ops::IndexMut<usize>>::index_mut ] (s: &mut Slab<T>, k: usize) -> (r: &mut T)
    ensures *r == old(s)@[k as int], final(s)@ == old(s)@.insert(k as int, *final(r));
// the two halves of a text cut at a byte offset that is a character boundary (R21: `&text[..a]`, `&text[a..]`)
pub uninterp spec fn str_to(s: Seq<char>, a: int) -> Seq<char>;
pub uninterp spec fn str_from(s: Seq<char>, a: int) -> Seq<char>;
#[verifier::external_body]
pub fn verif_str_to(s: &str, a: usize) -> (r: &str) requires a <= s.len(), s.is_char_boundary(a) ensures r@ == str_to(s@, a as int) { &s[..a] }
#[verifier::external_body]
pub fn verif_str_from(s: &str, a: usize) -> (r: &str) requires a <= s.len(), s.is_char_boundary(a) ensures r@ == str_from(s@, a as int) { &s[a..] }
// LineMap::normalize by its contract: the text without CR, and THE line map of that text
#[verifier::external_body]
pub struct LineMap { _x: u8 }
pub uninterp spec fn strip_cr(s: Seq<char>) -> Seq<char>;
pub uninterp spec fn lm_of(s: Seq<char>) -> LineMap;
impl LineMap {
    #[verifier::external_body]
    pub fn normalize(text: String) -> (r: (String, LineMap)) ensures r.0@ == strip_cr(text@), r.1 == lm_of(r.0@) { unimplemented!() }
}
// ide::Change: the analysis is told (file, text)
pub struct Change { pub calls: Vec<(FileId, Arc<str>)>, pub structural: bool }
impl Change {
    pub fn change_file(&mut self, file: FileId, text: Arc<str>) ensures final(self).calls@ == old(self).calls@.push((file, text)), final(self).structural == old(self).structural { self.calls.push((file, text)); }
    pub fn set_structural_change(&mut self) ensures final(self).calls@ == old(self).calls@, final(self).structural { self.structural = true; }
}
// ide::FileSet by its contract (two maps; crates/ide/src/base.rs)
#[verifier::external_body]
pub struct VfsPath { _x: u8 }
#[verifier::external_body]
pub struct Url { _x: u8 }
impl Url {
    pub uninterp spec fn vpath(&self) -> VfsPath;
    #[verifier::external_body]
    pub fn to_vfs_path(&self) -> (r: VfsPath) ensures r == self.vpath() { unimplemented!() }
}
#[verifier::external_body]
pub struct FileSet { _x: u8 }
impl FileSet {
    pub uninterp spec fn files(&self) -> Map<VfsPath, FileId>;
    pub uninterp spec fn paths(&self) -> Map<FileId, VfsPath>;
    #[verifier::external_body]
    pub fn insert(&mut self, file: FileId, path: VfsPath)
        ensures final(self).files() == old(self).files().insert(path, file), final(self).paths() == old(self).paths().insert(file, path)
    { unimplemented!() }
    #[verifier::external_body]
    pub fn remove_file(&mut self, file: FileId)
        ensures old(self).paths().contains_key(file) ==> final(self).paths() == old(self).paths().remove(file) && final(self).files() == old(self).files().remove(old(self).paths()[file]),
            !old(self).paths().contains_key(file) ==> final(self).paths() == old(self).paths() && final(self).files() == old(self).files(),
    { unimplemented!() }
    #[verifier::external_body]
    pub fn file_for_path(&self, path: &VfsPath) -> (r: Option<FileId>)
        ensures r is Some <==> self.files().contains_key(*path), r is Some ==> r->Some_0 == self.files()[*path]
    { unimplemented!() }
}
pub struct Vfs { pub files: Slab<(Arc<str>, Arc<LineMap>)>, pub local_file_set: FileSet, pub change: Change }
// slab's vacant-entry protocol: the entry holds the slab mutably; inserting through it fills the slot
#[verifier::reject_recursive_types(T)]
pub struct VacantEntry<'a, T> { pub slab: &'a mut Slab<T>, pub key: usize }
impl<'a, T> VacantEntry<'a, T> {
    pub fn key(&self) -> (r: usize) ensures r == self.key { self.key }
    #[verifier::external_body]
    pub fn insert(self, val: T) ensures final(self.slab)@ == old(self.slab)@.insert(self.key as int, val) { unimplemented!() }
}
impl<T> Slab<T> {
    pub uninterp spec fn slots(&self) -> int;   // number of slots ever allocated; a vacant key is at most that
    #[verifier::external_body]
    pub fn vacant_entry(&mut self) -> (r: VacantEntry<'_, T>)
        ensures !old(self)@.dom().contains(r.key as int), r.key <= old(self).slots(), *r.slab == *old(self), *final(r.slab) == *final(self)
    { unimplemented!() }
    #[verifier::external_body]
    pub fn remove(&mut self, k: usize) -> (r: T)
        requires old(self)@.dom().contains(k as int)
        ensures final(self)@ == old(self)@.remove(k as int), r == old(self)@[k as int]
    { unimplemented!() }
}
// R28: `"..".into()` where an Arc<str> is expected
#[verifier::external_body]
pub fn verif_arc_str(s: &str) -> (r: Arc<str>) ensures r@ == s@ { s.into() }
// anyhow::Context::with_context on an Option, minus the message (R27)
pub fn verif_with_context<T>(o: Option<T>) -> (r: Result<T>) ensures o is Some ==> r == Ok::<T, Error>(o->Some_0), o is None ==> r is Err
{ match o { Some(v) => Ok(v), None => Err(verif_error()) } }
// bridge: the interpretation under which the contracts that the conversion unit (contracts/conv_prelude.rs) ASSUMES for its opaque Vfs
// (file_for_uri, line_map_for_file) are proved for the real functions - tools/extract_vfs.py copies them textually onto wrappers (`bridge_conv_*`)
impl Vfs {
    pub open spec fn live_i(&self, file: FileId) -> bool { self.files@.dom().contains(file.0 as int) }
    pub open spec fn known_i(&self, uri: &Url) -> Option<FileId> { if self.local_file_set.files().contains_key(uri.vpath()) { Some(self.local_file_set.files()[uri.vpath()]) } else { None } }
    pub open spec fn lm_i(&self, file: FileId) -> LineMap { *self.files@[file.0 as int].1 }
}
impl Vfs {
    // every path the file set knows maps to a live slab key, and the two maps of the file set agree
    pub open spec fn wf(&self) -> bool {
        forall|p: VfsPath| #[trigger] self.local_file_set.files().contains_key(p) ==> {
            let f = self.local_file_set.files()[p];
            self.files@.dom().contains(f.0 as int) && self.local_file_set.paths().contains_key(f) && self.local_file_set.paths()[f] == p }
    }
}


// what a successful edit leaves behind
pub open spec fn applied(o: Vfs, n: Vfs, file: FileId, new_text: Seq<char>) -> bool {
    &&& n.files@.dom() =~= o.files@.dom()
    &&& forall|k: int| k != file.0 as int && o.files@.dom().contains(k) ==> n.files@[k] == o.files@[k]
    &&& n.files@[file.0 as int].0@ == new_text
    &&& *n.files@[file.0 as int].1 == lm_of(new_text)
    &&& n.change.calls@.len() == o.change.calls@.len() + 1
    &&& n.change.calls@.last().0 == file && n.change.calls@.last().1@ == new_text
}

