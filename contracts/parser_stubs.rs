// ---------- R8: stand-ins for dependency types ----------
// rowan::TextRange / TextSize: the parser never branches on a range.
#[derive(Clone, Copy)]
pub struct TextRange { pub start: u32, pub end: u32 }
#[derive(Clone, Copy)]
pub struct TextSize { pub raw: u32 }
impl vstd::std_specs::convert::FromSpecImpl<u32> for TextSize {
    open spec fn obeys_from_spec() -> bool { true }
    open spec fn from_spec(raw: u32) -> Self { TextSize { raw } }
}
impl From<u32> for TextSize { fn from(raw: u32) -> Self { TextSize { raw } } }
impl TextRange { fn empty(at: TextSize) -> (r: TextRange) ensures r == (TextRange { start: at.raw, end: at.raw }) { TextRange { start: at.raw, end: at.raw } } }
// the rest of the text-size API a refactoring of the error-reporting code is likely to reach for (same two-field meaning)
impl TextSize {
    fn of(text: &str) -> (r: TextSize) ensures r.raw == text.len() as u32 { TextSize { raw: text.len() as u32 } }
}
impl TextRange {
    fn new(start: TextSize, end: TextSize) -> (r: TextRange) requires start.raw <= end.raw ensures r == (TextRange { start: start.raw, end: end.raw }) { TextRange { start: start.raw, end: end.raw } }
    fn at(offset: TextSize, len: TextSize) -> (r: TextRange) requires offset.raw + len.raw <= u32::MAX ensures r == (TextRange { start: offset.raw, end: (offset.raw + len.raw) as u32 }) { TextRange { start: offset.raw, end: offset.raw + len.raw } }
    fn start(self) -> (r: TextSize) ensures r.raw == self.start { TextSize { raw: self.start } }
    fn end(self) -> (r: TextSize) ensures r.raw == self.end { TextSize { raw: self.end } }
    fn len(self) -> (r: TextSize) requires self.start <= self.end ensures r.raw == self.end - self.start { TextSize { raw: self.end - self.start } }
    fn is_empty(self) -> (r: bool) ensures r == (self.start == self.end) { self.start == self.end }
}

// ---------- rowan's green-tree builder, as far as Parser::build_tree uses it (assumed contracts on a dependency) ----------
// The builder is specified by the TRACE of calls made on it (ghost view); what rowan makes of a trace is assumption (iii):
// a trace with exactly one root node and balanced start/finish calls yields a tree whose leaves are the token() calls in order.
mod rowan {
    use vstd::prelude::*;
    verus! {
    pub struct SyntaxKind(pub u16);
    }
}
pub enum BEv { Start(u16), Token(u16, Seq<char>), Finish }
#[verifier::external_body]
pub struct GreenNodeBuilder { _x: u8 }
#[verifier::external_body]
pub struct GreenNode { _x: u8 }
impl View for GreenNodeBuilder { type V = Seq<BEv>; uninterp spec fn view(&self) -> Seq<BEv>; }
impl View for GreenNode { type V = Seq<BEv>; uninterp spec fn view(&self) -> Seq<BEv>; }
impl Default for GreenNodeBuilder {
    #[verifier::external_body]
    fn default() -> (r: Self) ensures r@ == Seq::<BEv>::empty() { GreenNodeBuilder { _x: 0 } }
}
impl GreenNodeBuilder {
    #[verifier::external_body]
    fn start_node(&mut self, kind: rowan::SyntaxKind) ensures final(self)@ == old(self)@.push(BEv::Start(kind.0)) {}
    #[verifier::external_body]
    fn token(&mut self, kind: rowan::SyntaxKind, text: &str) ensures final(self)@ == old(self)@.push(BEv::Token(kind.0, text@)) {}
    #[verifier::external_body]
    fn finish_node(&mut self) ensures final(self)@ == old(self)@.push(BEv::Finish) {}
    // rowan: `assert_eq!(self.children.len(), 1)` - exactly one root, everything inside it
    #[verifier::external_body]
    fn finish(self) -> (r: GreenNode) requires single_root(self@) ensures r@ == self@ { GreenNode { _x: 0 } }
}
// text-size: `impl Index<TextRange> for str`
#[verifier::external]
impl std::ops::Index<TextRange> for str {
    type Output = str;
    fn index(&self, index: TextRange) -> &str { &self[index.start as usize..index.end as usize] }
}
pub uninterp spec fn str_slice(s: Seq<char>, r: TextRange) -> Seq<char>;
impl vstd::std_specs::core::IndexSpecImpl<TextRange> for str {
    open spec fn index_req(&self, r: &TextRange) -> bool { true }
}
pub assume_specification [ <str as std::ops::Index<TextRange>>::index ] (s: &str, r: TextRange) -> (o: &str)
    ensures o@ == str_slice(s@, r);
// meaning of the real `impl From<SyntaxKind> for rowan::SyntaxKind` (its body is verified against this)
impl vstd::std_specs::convert::FromSpecImpl<SyntaxKind> for rowan::SyntaxKind {
    open spec fn obeys_from_spec() -> bool { true }
    open spec fn from_spec(k: SyntaxKind) -> Self { rowan::SyntaxKind(k as u16) }
}
// R11: `(a..b).take_while(|&i| f(i)).count()` - the standard library's meaning of take_while + count on a range
pub open spec fn tw_idx(i: usize) -> bool { true }   // trigger marker
#[verifier::external_body]
fn verif_range_take_while_count<F: Fn(usize) -> bool>(a: usize, b: usize, f: F) -> (r: usize)
    requires forall|i: usize| a <= i < b ==> f.requires((i,)),
    ensures a <= b ==> a + r <= b, a > b ==> r == 0,
        forall|i: usize| #![trigger f.ensures((i,), true)] #![trigger tw_idx(i)] a <= i < a + r ==> f.ensures((i,), true),
        a + r < b ==> f.ensures(((a + r) as usize,), false),
{ (a..b).take_while(|&it| f(it)).count() }
// std: Option::map_or
pub assume_specification<T, U, F: FnOnce(T) -> U>[ Option::<T>::map_or ](o: Option<T>, default: U, f: F) -> (r: U)
    requires o is Some ==> f.requires((o->Some_0,)),
    ensures o is None ==> r == default, o is Some ==> f.ensures((o->Some_0,), r);
