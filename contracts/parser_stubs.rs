// ---------- R8: opaque stand-ins for dependency types (no specifications attached) ----------
// rowan::TextRange / TextSize: the parser never branches on a range.
#[derive(Clone, Copy)]
struct TextRange { start: u32, end: u32 }
#[derive(Clone, Copy)]
struct TextSize { raw: u32 }
#[verifier::external]
impl From<u32> for TextSize { fn from(raw: u32) -> Self { TextSize { raw } } }
#[verifier::external]
impl TextRange { fn empty(at: TextSize) -> TextRange { TextRange { start: at.raw, end: at.raw } } }
