// ---------- R8: opaque stand-ins for dependency types (no specifications attached) ----------
// rowan::TextRange / TextSize: the parser never branches on a range.
#[derive(Clone, Copy)]
struct TextRange { start: u32, end: u32 }
#[derive(Clone, Copy)]
struct TextSize { raw: u32 }
#[verifier::external]
impl From<u32> for TextSize { fn from(raw: u32) -> Self { TextSize { raw } } }
#[verifier::external]
impl TextRange { fn empty(at: TextSize) -> TextRange { TextRange { start: at.raw, end: at.raw } } }
// std::cell::Cell: the real type, declared to Verus as an opaque external type; `set` gets an
// empty specification (no ensures), `get` is only used inside Parser::nth (external_body, R7).
#[verifier::external_type_specification]
#[verifier::external_body]
#[verifier::reject_recursive_types(T)]
pub struct ExCell<T: ?Sized>(core::cell::Cell<T>);
pub assume_specification<T>[core::cell::Cell::<T>::set](c: &core::cell::Cell<T>, v: T);
use core::cell::Cell;
pub assume_specification<T>[core::cell::Cell::<T>::new](v: T) -> core::cell::Cell<T>;
