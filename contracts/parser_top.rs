// ---------- top-level lemmas (hand-written glue around the `Parser { .. }` literal cut out of parse_module) ----------
// L1: for every token vector whose kinds are token kinds, running the real `module` on the parser that parse_module
// constructs ends with: every token consumed, exactly one Advance per token, a single rooted well-nested tree
// (first event Open(SOURCE_FILE), last event Close, depth 0, never outside the root in between), token vectors and
// source untouched.
fn verif_top<'i>(tokens: Vec<LexToken<'i>>, tokens_raw: Vec<LexToken<'i>>, src: &'i str) -> (p: Parser<'i>)
    requires forall|i: int| 0 <= i < tokens@.len() ==> is_tok(#[trigger] tokens@[i].kind), tokens@.len() + 8 <= usize::MAX,
    ensures p.tokens@ == tokens@, p.tokens_raw@ == tokens_raw@, p.src@ == src@,
        p.pos == tokens@.len(), n_adv(p.events@) == tokens@.len(),
        nested(p.events@), rooted(p.events@), depth(p.events@) == 0,
        p.events@.len() >= 2, p.events@[0] == (Event::Open { kind: SyntaxKind::SOURCE_FILE }), p.events@.last() is Close,
        p.errs_ok(),   // C20: every recorded syntax error points at a whole token of the parser or is empty at the end of the text
{
    let mut p = @PARSER_LITERAL@;
    proof {
        reveal(n_adv); reveal(depth); reveal(nested); reveal(rooted); reveal(errs_ok3);
        assert(p.events@.len() == 0);
        assert forall|j: int| 0 <= j <= p.events@.len() implies depth(#[trigger] p.events@.take(j)) >= 0 by {
            assert(p.events@.take(j) =~= p.events@);
        }
        assert(p.wf0());
    }
    module(&mut p);
    p
}
