// Stand-ins, specification, lemmas and theorems of the line-map query unit (C14, Verus).  The struct, the enum and the four
// query functions are cut out of crates/glas/src/vfs.rs on every run (tools/extract_lmap.py) and inserted after the stand-ins.
// ---------- stand-ins (assumed contracts on dependencies) ----------
#[derive(Clone, Copy, PartialEq, Eq)]
pub struct TextSize { pub raw: u32 }
impl vstd::std_specs::convert::FromSpecImpl<u32> for TextSize {
    open spec fn obeys_from_spec() -> bool { true }
    open spec fn from_spec(raw: u32) -> Self { TextSize { raw } }
}
impl From<u32> for TextSize { fn from(raw: u32) -> Self { TextSize { raw } } }
impl vstd::std_specs::convert::FromSpecImpl<TextSize> for u32 {
    open spec fn obeys_from_spec() -> bool { true }
    open spec fn from_spec(s: TextSize) -> Self { s.raw }
}
impl From<TextSize> for u32 { fn from(s: TextSize) -> u32 { s.raw } }
// rustc_hash::FxHashMap as a finite map (only `get` is used by the query functions)
#[verifier::external_body]
#[verifier::reject_recursive_types(K)]
#[verifier::reject_recursive_types(V)]
pub struct FxHashMap<K, V> { k: Vec<K>, v: Vec<V> }
impl<K, V> View for FxHashMap<K, V> { type V = Map<K, V>; uninterp spec fn view(&self) -> Map<K, V>; }
impl<K, V> FxHashMap<K, V> {
    #[verifier::external_body]
    pub fn get(&self, k: &K) -> (r: Option<&V>)
        ensures r is Some <==> self@.contains_key(*k), r is Some ==> *r->Some_0 == self@[*k]
    { unimplemented!() }
}
pub assume_specification<'a, T: Copy> [Option::<&'a T>::copied] (o: Option<&'a T>) -> (r: Option<T>)
    ensures o is None ==> r is None, o is Some ==> r == Some(*o->Some_0);
// R24: the standard library's meaning of `slice.partition_point(pred)` (binary search: the slice must be partitioned)
spec fn pp_idx(i: int) -> bool { true }   // trigger marker
#[verifier::external_body]
fn verif_partition_point<T: Copy, F: Fn(T) -> bool>(s: &Vec<T>, f: F) -> (r: usize)
    requires forall|i: int| 0 <= i < s@.len() ==> f.requires((#[trigger] s@[i],)),
        forall|i: int, j: int| 0 <= i < j < s@.len() && f.ensures((#[trigger] s@[i],), false) ==> !f.ensures((#[trigger] s@[j],), true),
    ensures r <= s@.len(),
        forall|i: int| #![trigger pp_idx(i)] 0 <= i < r ==> f.ensures((s@[i],), true),
        forall|i: int| #![trigger pp_idx(i)] r <= i < s@.len() ==> f.ensures((s@[i],), false),
{ s.partition_point(|&it| f(it)) }
// R25: `v.iter().take_while(f).map(g).sum::<u32>()` and `v.iter().map(g).sum::<u32>()`.  `sum` panics on overflow in a debug build:
// the precondition (every mapped value times the number of elements fits) is sufficient for it not to.  The result is
// characterised without naming a witness: whenever n is where take_while must stop (f cannot have said no before n, cannot have
// said yes at n) and ys are the only values g can have returned on the first n elements, the result is their sum.
spec fn seq_sum(ys: Seq<u32>) -> int decreases ys.len() { if ys.len() == 0 { 0 } else { seq_sum(ys.drop_last()) + ys.last() } }
spec fn mul(a: int, b: int) -> int { a * b }
spec fn sum_wit(n: int, ys: Seq<u32>) -> bool { true }   // trigger marker
spec fn mapped<T, G: Fn(&T) -> u32>(v: Seq<T>, g: G, n: int, ys: Seq<u32>) -> bool {
    0 <= n <= v.len() && ys.len() == n && forall|i: int, y: u32| 0 <= i < n && #[trigger] g.ensures((&v[i],), y) ==> y == ys[i]
}
spec fn stops_at<T, F: Fn(&T) -> bool>(v: Seq<T>, f: F, n: int) -> bool {
    &&& 0 <= n <= v.len()
    &&& forall|i: int| 0 <= i < n ==> !f.ensures((&#[trigger] v[i],), false)
    &&& n < v.len() ==> !f.ensures((&v[n],), true)
}
#[verifier::external_body]
fn verif_iter_take_while_map_sum<T, F: Fn(&T) -> bool, G: Fn(&T) -> u32>(v: &Vec<T>, f: F, g: G) -> (r: u32)
    requires forall|i: int| 0 <= i < v@.len() ==> f.requires((&#[trigger] v@[i],)) && g.requires((&v@[i],)),
        forall|i: int, y: u32| 0 <= i < v@.len() && #[trigger] g.ensures((&v@[i],), y) ==> mul(y as int, v@.len() as int) <= u32::MAX,
    ensures forall|n: int, ys: Seq<u32>| #![trigger sum_wit(n, ys)] stops_at(v@, f, n) && mapped(v@, g, n, ys) ==> r == seq_sum(ys),
{ v.iter().take_while(|x| f(x)).map(|x| g(x)).sum::<u32>() }
#[verifier::external_body]
fn verif_iter_map_sum<T, G: Fn(&T) -> u32>(v: &Vec<T>, g: G) -> (r: u32)
    requires forall|i: int| 0 <= i < v@.len() ==> g.requires((&#[trigger] v@[i],)),
        forall|i: int, y: u32| 0 <= i < v@.len() && #[trigger] g.ensures((&v@[i],), y) ==> mul(y as int, v@.len() as int) <= u32::MAX,
    ensures forall|ys: Seq<u32>| #![trigger sum_wit(v@.len() as int, ys)] mapped(v@, g, v@.len() as int, ys) ==> r == seq_sum(ys),
{ v.iter().map(|x| g(x)).sum::<u32>() }
// ===== specification =====
// ---------- specification: the line map as a data structure ----------
type Ds = Seq<(u32, CodeUnitsDiff)>;
spec fn dv(d: CodeUnitsDiff) -> int { d as u32 as int }
// sum of the width differences of the first n recorded characters
spec fn dsum(ds: Ds, n: int) -> int decreases n { if n <= 0 { 0 } else { dsum(ds, n - 1) + dv(ds[n - 1].1) } }
// where `take_while(|(p, _)| p < off)` stops when started at index i
spec fn tw(ds: Ds, off: int, i: int) -> int decreases ds.len() - i { if 0 <= i < ds.len() && ds[i].0 < off { tw(ds, off, i + 1) } else { i } }
// the column walk of pos_for_line_col after n recorded characters
spec fn pw(ds: Ds, c0: int, n: int) -> int decreases n {
    if n <= 0 { c0 } else { let c = pw(ds, c0, n - 1); if ds[n - 1].0 < c { c + dv(ds[n - 1].1) } else { c } }
}
// recorded characters lie one after the other inside a line of blen bytes: character i occupies at least 1 + dv bytes from ds[i].0
spec fn ds_ok(ds: Ds, blen: int) -> bool {
    0 <= blen && forall|i: int| 0 <= i < ds.len() ==> 1 <= dv(#[trigger] ds[i].1) <= 2 && ds[i].0 + 1 + dv(ds[i].1) <= (if i + 1 < ds.len() { ds[i + 1].0 as int } else { blen })
}
// off is not strictly inside a recorded multi-byte character (every character boundary of the text is such an offset)
spec fn mb(ds: Ds, off: int) -> bool {
    forall|i: int| 0 <= i < ds.len() ==> !((#[trigger] ds[i]).0 < off < ds[i].0 + 1 + dv(ds[i].1))
}
impl LineMap {
    spec fn ls(&self) -> Seq<u32> { self.line_starts@ }
    spec fn ds(&self, line: int) -> Ds { if self.char_diffs@.contains_key(line as u32) { self.char_diffs@[line as u32]@ } else { Seq::empty() } }
    spec fn last(&self) -> int { self.ls().len() - 1 }
    // where the line ends: its LF, or the end of the text
    spec fn line_end(&self, line: int) -> int { if line + 1 >= self.ls().len() { self.len as int } else { self.ls()[line + 1] - 1 } }
    spec fn blen(&self, line: int) -> int { self.line_end(line) - self.ls()[line] }
    // representation invariant (what LineMap::normalize establishes; checked on enumerated documents by the Kani unit)
    spec fn wf(&self) -> bool {
        &&& 1 <= self.ls().len() <= u32::MAX && self.ls()[0] == 0
        &&& forall|i: int, j: int| 0 <= i < j < self.ls().len() ==> #[trigger] self.ls()[i] < #[trigger] self.ls()[j]
        &&& self.ls()[self.last()] <= self.len
        &&& forall|l: int| 0 <= l < self.ls().len() ==> ds_ok(#[trigger] self.ds(l), self.blen(l))
    }
    spec fn is_line(&self, l: int, pos: int) -> bool { 0 <= l <= self.last() && self.ls()[l] <= pos && (l < self.last() ==> pos < self.ls()[l + 1]) }
    spec fn end_col(&self, line: int) -> int { self.blen(line) - dsum(self.ds(line), self.ds(line).len() as int) }
    spec fn p4lc(&self, line: int, col: int) -> int { self.ls()[line] + pw(self.ds(line), col, self.ds(line).len() as int) }
    spec fn col_of(&self, l: int, pos: int) -> int { (pos - self.ls()[l]) - dsum(self.ds(l), tw(self.ds(l), pos - self.ls()[l], 0)) }
    spec fn line_of(&self, pos: int) -> int { choose|l: int| self.is_line(l, pos) }
    spec fn lc(&self, pos: int) -> (int, int) { (self.line_of(pos), self.col_of(self.line_of(pos), pos)) }
    spec fn bnd(&self, pos: int) -> bool { mb(self.ds(self.line_of(pos)), pos - self.ls()[self.line_of(pos)]) }
}
// ---------- lemmas ----------
proof fn lemma_dsum_mono(ds: Ds, a: int, b: int)
    requires 0 <= a <= b <= ds.len(), forall|i: int| 0 <= i < ds.len() ==> 1 <= dv(#[trigger] ds[i].1) <= 2
    ensures dsum(ds, a) <= dsum(ds, b), dsum(ds, b) - dsum(ds, a) <= 2 * (b - a), dsum(ds, b) - dsum(ds, a) >= b - a
    decreases b - a
{ if a < b { lemma_dsum_mono(ds, a, b - 1); } }
// positions grow at least as fast as the accumulated widths
proof fn lemma_gap(ds: Ds, blen: int, i: int, j: int)
    requires ds_ok(ds, blen), 0 <= i <= j < ds.len()
    ensures ds[j].0 - ds[i].0 >= (dsum(ds, j) - dsum(ds, i)) + (j - i)
    decreases j - i
{ if i < j { lemma_gap(ds, blen, i, j - 1); assert(ds[j - 1].0 + 1 + dv(ds[j - 1].1) <= ds[j].0); } }
proof fn lemma_fits(ds: Ds, blen: int, n: int)
    requires ds_ok(ds, blen), 0 <= n <= ds.len()
    ensures dsum(ds, n) + n <= (if n < ds.len() { ds[n].0 as int } else { blen }), n > 0 ==> dsum(ds, n) + n <= ds[n - 1].0 + 1 + dv(ds[n - 1].1)
{
    if n > 0 {
        lemma_gap(ds, blen, 0, n - 1);
        assert(1 <= dv(ds[n - 1].1) <= 2);
        assert(dsum(ds, n) == dsum(ds, n - 1) + dv(ds[n - 1].1));
        if n < ds.len() { assert(ds[n - 1].0 + 1 + dv(ds[n - 1].1) <= ds[n].0); } else { assert(ds[n - 1].0 + 1 + dv(ds[n - 1].1) <= blen); }
    }
}
proof fn lemma_tw(ds: Ds, off: int, i: int)
    requires 0 <= i <= ds.len()
    ensures i <= tw(ds, off, i) <= ds.len(),
        forall|k: int| i <= k < tw(ds, off, i) ==> (#[trigger] ds[k]).0 < off,
        tw(ds, off, i) < ds.len() ==> ds[tw(ds, off, i)].0 >= off
    decreases ds.len() - i
{ if i < ds.len() && ds[i].0 < off { lemma_tw(ds, off, i + 1); } }
// tw is determined by "a prefix below off, then one at or above"
proof fn lemma_tw_unique(ds: Ds, off: int, i: int, n: int)
    requires 0 <= i <= n <= ds.len(), forall|k: int| i <= k < n ==> (#[trigger] ds[k]).0 < off, n < ds.len() ==> ds[n].0 >= off
    ensures tw(ds, off, i) == n
    decreases n - i
{ if i < n { lemma_tw_unique(ds, off, i + 1, n); } }
proof fn lemma_pw_bound(ds: Ds, c0: int, n: int)
    requires 0 <= n <= ds.len(), forall|i: int| 0 <= i < ds.len() ==> 1 <= dv(#[trigger] ds[i].1) <= 2
    ensures c0 <= pw(ds, c0, n) <= c0 + dsum(ds, n)
    decreases n
{ if n > 0 { lemma_pw_bound(ds, c0, n - 1); } }
proof fn lemma_seq_sum_is_dsum(ds: Ds, n: int, ys: Seq<u32>)
    requires 0 <= n <= ds.len(), ys.len() == n, forall|i: int| 0 <= i < n ==> #[trigger] ys[i] as int == dv(ds[i].1)
    ensures seq_sum(ys) == dsum(ds, n)
    decreases n
{
    if n > 0 {
        let yp = ys.drop_last();
        assert forall|i: int| 0 <= i < n - 1 implies #[trigger] yp[i] as int == dv(ds[i].1) by { assert(yp[i] == ys[i]); }
        lemma_seq_sum_is_dsum(ds, n - 1, yp);
    }
}
proof fn lemma_line_unique(lm: &LineMap, l: int, pos: int)
    requires lm.wf(), lm.is_line(l, pos)
    ensures lm.line_of(pos) == l
{
    let l2 = lm.line_of(pos);
    assert(lm.is_line(l2, pos));
    if l2 < l { assert(lm.ls()[l2 + 1] <= lm.ls()[l]); }
    if l < l2 { assert(lm.ls()[l + 1] <= lm.ls()[l2]); }
}

spec fn dvs(ds: Ds, n: int) -> Seq<u32> { Seq::new(n as nat, |i: int| dv(ds[i].1) as u32) }
proof fn lemma_dvs(ds: Ds, n: int)
    requires 0 <= n <= ds.len(), forall|i: int| 0 <= i < ds.len() ==> 1 <= dv(#[trigger] ds[i].1) <= 2
    ensures seq_sum(dvs(ds, n)) == dsum(ds, n)
    decreases n
{
    if n > 0 { lemma_dvs(ds, n - 1); assert(dvs(ds, n).drop_last() =~= dvs(ds, n - 1)); }
}
// everything the take_while/map/sum chain of line_col_for_pos needs: the walk stops at tw, the sum is dsum and fits below off
proof fn lemma_lc_sum(ds: Ds, blen: int, off: int)
    requires ds_ok(ds, blen), mb(ds, off), 0 <= off <= blen, blen <= u32::MAX
    ensures ({ let n = tw(ds, off, 0);
        &&& 0 <= n <= ds.len() && seq_sum(dvs(ds, n)) == dsum(ds, n) && dsum(ds, n) <= off
        &&& forall|k: int| 0 <= k < n ==> (#[trigger] ds[k]).0 < off
        &&& n < ds.len() ==> ds[n].0 >= off
        &&& forall|y: int| 1 <= y <= 2 ==> #[trigger] mul(y, ds.len() as int) <= u32::MAX }),
{
    let n = tw(ds, off, 0);
    lemma_tw(ds, off, 0);
    lemma_dvs(ds, n);
    lemma_fits(ds, blen, n);
    lemma_fits(ds, blen, ds.len() as int);
    lemma_dsum_mono(ds, 0, ds.len() as int);
    assert forall|y: int| 1 <= y <= 2 implies #[trigger] mul(y, ds.len() as int) <= u32::MAX by { assert(y == 1 || y == 2); }
    if n > 0 { assert(ds[n - 1].0 < off); assert(!(ds[n - 1].0 < off < ds[n - 1].0 + 1 + dv(ds[n - 1].1))); }
}

proof fn lemma_ec_sum(ds: Ds, blen: int)
    requires ds_ok(ds, blen), blen <= u32::MAX
    ensures seq_sum(dvs(ds, ds.len() as int)) == dsum(ds, ds.len() as int), dsum(ds, ds.len() as int) <= blen,
        forall|y: int| 1 <= y <= 2 ==> #[trigger] mul(y, ds.len() as int) <= u32::MAX,
{
    lemma_dvs(ds, ds.len() as int);
    lemma_fits(ds, blen, ds.len() as int);
    lemma_dsum_mono(ds, 0, ds.len() as int);
    assert forall|y: int| 1 <= y <= 2 implies #[trigger] mul(y, ds.len() as int) <= u32::MAX by { assert(y == 1 || y == 2); }
}

// ---------- theorems: what C14 says, for every line map satisfying the representation invariant ----------
proof fn lemma_pos_sorted(ds: Ds, blen: int, i: int, j: int)
    requires ds_ok(ds, blen), 0 <= i <= j < ds.len()
    ensures ds[i].0 <= ds[j].0
{ lemma_gap(ds, blen, i, j); lemma_dsum_mono(ds, i, j); }
proof fn lemma_tw_mono(ds: Ds, blen: int, a: int, b: int)
    requires ds_ok(ds, blen), a <= b
    ensures tw(ds, a, 0) <= tw(ds, b, 0)
{
    lemma_tw(ds, a, 0); lemma_tw(ds, b, 0);
    let ka = tw(ds, a, 0); let kb = tw(ds, b, 0);
    if kb < ka { assert(ds[kb].0 < a); }
}
// the walk of pos_for_line_col started at the column of offset `off` re-adds exactly the widths that were subtracted
proof fn lemma_pw_roundtrip(ds: Ds, blen: int, off: int, n: int)
    requires ds_ok(ds, blen), mb(ds, off), 0 <= off <= blen, 0 <= n <= ds.len()
    ensures ({ let k = tw(ds, off, 0); pw(ds, off - dsum(ds, k), n) == off - dsum(ds, k) + dsum(ds, if n <= k { n } else { k }) })
    decreases n
{
    let k = tw(ds, off, 0);
    lemma_tw(ds, off, 0);
    if n > 0 {
        lemma_pw_roundtrip(ds, blen, off, n - 1);
        let c = pw(ds, off - dsum(ds, k), n - 1);
        if n <= k {
            lemma_gap(ds, blen, n - 1, k - 1);
            assert(ds[k - 1].0 < off);
            assert(!(ds[k - 1].0 < off < ds[k - 1].0 + 1 + dv(ds[k - 1].1)));
            assert(dsum(ds, k) == dsum(ds, k - 1) + dv(ds[k - 1].1));
            assert(ds[n - 1].0 < c);
        } else {
            assert(c == off);
            lemma_pos_sorted(ds, blen, k, n - 1);
        }
    }
}
// the column of an offset never exceeds the line's end column
proof fn lemma_col_le_end(ds: Ds, blen: int, off: int)
    requires ds_ok(ds, blen), 0 <= off <= blen
    ensures off - dsum(ds, tw(ds, off, 0)) <= blen - dsum(ds, ds.len() as int)
{
    let k = tw(ds, off, 0);
    lemma_tw(ds, off, 0);
    if k < ds.len() {
        lemma_gap(ds, blen, k, ds.len() - 1);
        let m = ds.len() - 1;
        assert(ds[m].0 + 1 + dv(ds[m].1) <= blen);
        assert(dsum(ds, m + 1) == dsum(ds, m) + dv(ds[m].1));
    }
}
// strictly monotone inside a line
proof fn lemma_col_mono(ds: Ds, blen: int, a: int, b: int)
    requires ds_ok(ds, blen), mb(ds, b), 0 <= a < b
    ensures a - dsum(ds, tw(ds, a, 0)) < b - dsum(ds, tw(ds, b, 0))
{
    let ka = tw(ds, a, 0); let kb = tw(ds, b, 0);
    lemma_tw(ds, a, 0); lemma_tw(ds, b, 0); lemma_tw_mono(ds, blen, a, b);
    if ka < kb {
        lemma_gap(ds, blen, ka, kb - 1);
        assert(ds[kb - 1].0 < b);
        assert(!(ds[kb - 1].0 < b < ds[kb - 1].0 + 1 + dv(ds[kb - 1].1)));
        assert(dsum(ds, kb) == dsum(ds, kb - 1) + dv(ds[kb - 1].1));
    }
}
proof fn lemma_line_exists(lm: &LineMap, pos: int, k: int)
    requires lm.wf(), 0 <= k <= lm.last(), lm.ls()[k] <= pos
    ensures exists|l: int| lm.is_line(l, pos)
    decreases lm.last() - k
{
    if k == lm.last() { assert(lm.is_line(k, pos)); }
    else if pos < lm.ls()[k + 1] { assert(lm.is_line(k, pos)); }
    else { lemma_line_exists(lm, pos, k + 1); }
}
proof fn lemma_line_of(lm: &LineMap, pos: int)
    requires lm.wf(), 0 <= pos <= lm.len
    ensures lm.is_line(lm.line_of(pos), pos), 0 <= pos - lm.ls()[lm.line_of(pos)] <= lm.blen(lm.line_of(pos))
{
    lemma_line_exists(lm, pos, 0);
    let l = lm.line_of(pos);
    if l < lm.last() { } else { }
}
spec fn lex_lt(a: (int, int), b: (int, int)) -> bool { a.0 < b.0 || (a.0 == b.0 && a.1 < b.1) }
// C14: offset -> (line, column) -> offset is the identity, and the position is a position of the document
proof fn thm_roundtrip(lm: &LineMap, pos: int)
    requires lm.wf(), 0 <= pos <= lm.len, lm.bnd(pos)
    ensures 0 <= lm.lc(pos).0 <= lm.last(), 0 <= lm.lc(pos).1 <= lm.end_col(lm.lc(pos).0), lm.p4lc(lm.lc(pos).0, lm.lc(pos).1) == pos
{
    lemma_line_of(lm, pos);
    let l = lm.line_of(pos); let ds = lm.ds(l); let off = pos - lm.ls()[l];
    assert(ds_ok(lm.ds(l), lm.blen(l)));
    lemma_pw_roundtrip(ds, lm.blen(l), off, ds.len() as int);
    lemma_col_le_end(ds, lm.blen(l), off);
    lemma_tw(ds, off, 0);
    lemma_fits(ds, lm.blen(l), tw(ds, off, 0));
    if tw(ds, off, 0) > 0 { let k = tw(ds, off, 0); assert(ds[k - 1].0 < off); assert(!(ds[k - 1].0 < off < ds[k - 1].0 + 1 + dv(ds[k - 1].1))); }
}
// C14: the conversion is strictly monotone
proof fn thm_mono(lm: &LineMap, a: int, b: int)
    requires lm.wf(), 0 <= a < b <= lm.len, lm.bnd(b)
    ensures lex_lt(lm.lc(a), lm.lc(b))
{
    lemma_line_of(lm, a); lemma_line_of(lm, b);
    let la = lm.line_of(a); let lb = lm.line_of(b);
    if lb < la { assert(lm.ls()[lb + 1] <= lm.ls()[la]); }
    if la == lb {
        assert(ds_ok(lm.ds(la), lm.blen(la)));
        lemma_col_mono(lm.ds(la), lm.blen(la), a - lm.ls()[la], b - lm.ls()[la]);
    }
}

// ---------- the contract the encoder unit (C19, contracts/semtok_prelude.rs: LineMap::ok) assumes, proved from wf ----------
spec fn lex_le(a: (int, int), b: (int, int)) -> bool { a.0 < b.0 || (a.0 == b.0 && a.1 <= b.1) }
proof fn thm_ok(lm: &LineMap)
    requires lm.wf()
    ensures
        forall|a: int, b: int| 0 <= a <= b <= lm.len && lm.bnd(a) && lm.bnd(b) ==> lex_le(#[trigger] lm.lc(a), #[trigger] lm.lc(b)),
        forall|a: int| 0 <= a <= lm.len && lm.bnd(a) ==> 0 <= (#[trigger] lm.lc(a)).0 <= lm.last() && 0 <= lm.lc(a).1 <= lm.end_col(lm.lc(a).0),
{
    assert forall|a: int, b: int| 0 <= a <= b <= lm.len && lm.bnd(a) && lm.bnd(b) implies lex_le(#[trigger] lm.lc(a), #[trigger] lm.lc(b)) by {
        if a < b { thm_mono(lm, a, b); }
    }
    assert forall|a: int| 0 <= a <= lm.len && lm.bnd(a) implies 0 <= (#[trigger] lm.lc(a)).0 <= lm.last() && 0 <= lm.lc(a).1 <= lm.end_col(lm.lc(a).0) by {
        thm_roundtrip(lm, a);
    }
}
// ---------- the contract the conversion unit (C15, contracts/conv_prelude.rs) assumes is the contract of the functions below:
// last_line == last, end_col_for_line (existing line) == end_col, pos_for_line_col (valid position) == p4lc, none of them panics ----------

// ---------- bridge: the stand-in contracts of the other units, under the interpretation below ----------
// The encoder unit (contracts/semtok_prelude.rs) and the conversion unit (contracts/conv_prelude.rs) treat LineMap as an opaque type
// with uninterpreted u32-typed functions lc / end_col / last / tlen / bnd / p4lc and ASSUME contracts for its methods.  tools/extract_lmap.py
// copies those assumed contracts textually out of the two preludes on every run (lc -> lc32, ...) and attaches them to wrappers around
// the REAL functions (`bridge_*`, generated at the end of the unit): Verus proving the wrappers shows that, with the interpretation
// lc := lc32 etc., every assumption those units make about the line map holds for every line map with wf.
spec fn lex_le32(a: (u32, u32), b: (u32, u32)) -> bool { a.0 < b.0 || (a.0 == b.0 && a.1 <= b.1) }
impl LineMap {
    spec fn lc32(&self, pos: u32) -> (u32, u32) { (self.lc(pos as int).0 as u32, self.lc(pos as int).1 as u32) }
    spec fn end_col32(&self, line: u32) -> u32 { self.end_col(line as int) as u32 }
    spec fn last32(&self) -> u32 { self.last() as u32 }
    spec fn tlen32(&self) -> u32 { self.len }
    spec fn bnd32(&self, pos: u32) -> bool { self.bnd(pos as int) }
    spec fn p4lc32(&self, line: u32, col: u32) -> u32 { self.p4lc(line as int, col as int) as u32 }
}
proof fn lemma_bridge_line(lm: &LineMap, line: int)
    requires lm.wf(), 0 <= line <= lm.last()
    ensures 0 <= lm.end_col(line) <= lm.len, 0 <= lm.last() < u32::MAX
{
    assert(ds_ok(lm.ds(line), lm.blen(line)));
    lemma_fits(lm.ds(line), lm.blen(line), lm.ds(line).len() as int);
    lemma_dsum_mono(lm.ds(line), 0, lm.ds(line).len() as int);
    if line < lm.last() { assert(lm.ls()[line + 1] <= lm.ls()[lm.last()]); }
}
proof fn lemma_bridge_pos(lm: &LineMap, pos: u32)
    requires lm.wf(), pos <= lm.len, lm.bnd(pos as int)
    ensures lm.lc32(pos).0 == lm.lc(pos as int).0, lm.lc32(pos).1 == lm.lc(pos as int).1, lm.lc32(pos).0 <= lm.last32(), lm.lc32(pos).1 <= lm.end_col32(lm.lc32(pos).0),
        lm.last32() == lm.last(), lm.end_col32(lm.lc32(pos).0) == lm.end_col(lm.lc(pos as int).0)
{
    thm_roundtrip(lm, pos as int);
    lemma_bridge_line(lm, lm.lc(pos as int).0);
}
