// L2 = the tail of parse_module, `module(&mut p); p.build_tree()`, end to end: the call trace handed to rowan's builder
// has exactly one root with everything inside it, and its token() calls are the raw tokens - every one of them, in
// order, each with its own kind and its own slice of the source.  The only facts taken from the three lines of
// parse_module that are not verified (lexing, trivia filter) are the two `requires`.
fn verif_parse<'i>(tokens: Vec<LexToken<'i>>, tokens_raw: Vec<LexToken<'i>>, src: &'i str) -> (r: Parse)
    requires forall|i: int| 0 <= i < tokens@.len() ==> is_tok(#[trigger] tokens@[i].kind), tokens@.len() + 8 <= usize::MAX,
        tokens@.len() == n_real(tokens_raw@, tokens_raw@.len() as int),
    ensures single_root(r.green@), btoks(r.green@) == raw_prefix(tokens_raw@, src@, tokens_raw@.len() as int),
        r.green@[0] == BEv::Start(SyntaxKind::SOURCE_FILE as u16),
        forall|j: int| 0 <= j < r.errors@.len() ==> err_range_ok(tokens@, eof_range(src), (#[trigger] r.errors@[j]).range),   // C20
{
    let p = verif_top(tokens, tokens_raw, src);
    let r = p.build_tree();
    proof { reveal(errs_ok3); }
    r
}
