// ---------- spec prelude (hand-written specification; not extracted) ----------
spec fn kidx(k: SyntaxKind) -> int { k as u16 as int }

spec fn is_tok(k: SyntaxKind) -> bool { kidx(k) < kidx(SyntaxKind::EOF) }
spec fn tag_adv(e: Event) -> int { if e is Advance { 1 } else { 0 } }
spec fn tag_depth(e: Event) -> int { match e { Event::Open{..} => 1, Event::Close => -1, Event::Advance => 0 } }

#[verifier::opaque]
spec fn n_adv(s: Seq<Event>) -> int decreases s.len() {
    if s.len() == 0 { 0 } else { n_adv(s.drop_last()) + tag_adv(s.last()) }
}
#[verifier::opaque]
spec fn depth(s: Seq<Event>) -> int decreases s.len() {
    if s.len() == 0 { 0 } else { depth(s.drop_last()) + tag_depth(s.last()) }
}
// every proper prefix has non-negative depth (never more Close than Open)
#[verifier::opaque]
spec fn nested(s: Seq<Event>) -> bool {
    forall|j: int| 0 <= j <= s.len() ==> depth(#[trigger] s.take(j)) >= 0
}

proof fn lemma_push(s: Seq<Event>, e: Event)
    ensures n_adv(s.push(e)) == n_adv(s) + tag_adv(e), depth(s.push(e)) == depth(s) + tag_depth(e),
{ reveal_with_fuel(n_adv, 2); reveal_with_fuel(depth, 2); reveal(nested);
    assert(s.push(e).drop_last() =~= s);
}
proof fn lemma_nested_push(s: Seq<Event>, e: Event)
    requires nested(s), depth(s) + tag_depth(e) >= 0
    ensures nested(s.push(e))
{ reveal_with_fuel(n_adv, 2); reveal_with_fuel(depth, 2); reveal(nested);
    lemma_push(s, e);
    let t = s.push(e);
    assert forall|j: int| 0 <= j <= t.len() implies depth(#[trigger] t.take(j)) >= 0 by {
        if j == t.len() { assert(t.take(j) =~= t); } else { assert(t.take(j) =~= s.take(j)); }
    }
}
proof fn lemma_insert(s: Seq<Event>, i: int, e: Event)
    requires 0 <= i <= s.len()
    ensures n_adv(s.insert(i, e)) == n_adv(s) + tag_adv(e), depth(s.insert(i, e)) == depth(s) + tag_depth(e),
    decreases s.len() - i
{ reveal_with_fuel(n_adv, 2); reveal_with_fuel(depth, 2); reveal(nested);
    if i == s.len() { assert(s.insert(i, e) =~= s.push(e)); lemma_push(s, e); }
    else {
        let t = s.insert(i, e);
        assert(t.drop_last() =~= s.drop_last().insert(i, e));
        assert(t.last() == s.last());
        lemma_insert(s.drop_last(), i, e);
    }
}
proof fn lemma_nested_insert_open(s: Seq<Event>, i: int, e: Event)
    requires 0 <= i <= s.len(), nested(s), e is Open
    ensures nested(s.insert(i, e))
{ reveal_with_fuel(n_adv, 2); reveal_with_fuel(depth, 2); reveal(nested);
    let t = s.insert(i, e);
    assert forall|j: int| 0 <= j <= t.len() implies depth(#[trigger] t.take(j)) >= 0 by {
        if j <= i { assert(t.take(j) =~= s.take(j)); }
        else { assert(t.take(j) =~= s.take(j - 1).insert(i, e)); lemma_insert(s.take(j - 1), i, e); }
    }
}
proof fn lemma_update_open(s: Seq<Event>, i: int, e: Event)
    requires 0 <= i < s.len(), s[i] is Open, e is Open
    ensures n_adv(s.update(i, e)) == n_adv(s), depth(s.update(i, e)) == depth(s),
        nested(s) ==> nested(s.update(i, e)),
    decreases s.len()
{ reveal_with_fuel(n_adv, 2); reveal_with_fuel(depth, 2); reveal(nested);
    let t = s.update(i, e);
    if i == s.len() - 1 { assert(t.drop_last() =~= s.drop_last()); }
    else { assert(t.drop_last() =~= s.drop_last().update(i, e)); lemma_update_open(s.drop_last(), i, e); }
    if nested(s) {
        assert forall|j: int| 0 <= j <= t.len() implies depth(#[trigger] t.take(j)) >= 0 by {
            if j <= i { assert(t.take(j) =~= s.take(j)); }
            else { assert(t.take(j) =~= s.take(j).update(i, e)); lemma_update_open_depth(s.take(j), i, e); }
        }
    }
}
proof fn lemma_update_open_depth(s: Seq<Event>, i: int, e: Event)
    requires 0 <= i < s.len(), s[i] is Open, e is Open
    ensures depth(s.update(i, e)) == depth(s)
    decreases s.len()
{ reveal_with_fuel(n_adv, 2); reveal_with_fuel(depth, 2); reveal(nested);
    let t = s.update(i, e);
    if i == s.len() - 1 { assert(t.drop_last() =~= s.drop_last()); }
    else { assert(t.drop_last() =~= s.drop_last().update(i, e)); lemma_update_open_depth(s.drop_last(), i, e); }
}

// every non-empty proper prefix has depth >= 1: the first event opens the root node and nothing leaves it before the
// last event.  This is what lets the tree builder hand rowan exactly one root with every token inside it.
#[verifier::opaque]
spec fn rooted(s: Seq<Event>) -> bool {
    forall|j: int| 1 <= j < s.len() ==> depth(#[trigger] s.take(j)) >= 1
}
// "inside the root": where every grammar function except `module` runs
spec fn inroot(s: Seq<Event>) -> bool { s.len() >= 1 && depth(s) >= 1 }
proof fn lemma_rooted_push(s: Seq<Event>, e: Event)
    requires rooted(s), s.len() == 0 || depth(s) >= 1
    ensures rooted(s.push(e))
{ reveal(rooted);
    let t = s.push(e);
    assert forall|j: int| 1 <= j < t.len() implies depth(#[trigger] t.take(j)) >= 1 by {
        if j == s.len() { assert(t.take(j) =~= s); } else { assert(t.take(j) =~= s.take(j)); }
    }
}
proof fn lemma_rooted_insert_open(s: Seq<Event>, i: int, e: Event)
    requires rooted(s), 1 <= i <= s.len(), e is Open, depth(s) >= 1
    ensures rooted(s.insert(i, e))
{ reveal(rooted);
    let t = s.insert(i, e);
    assert forall|j: int| 1 <= j < t.len() implies depth(#[trigger] t.take(j)) >= 1 by {
        if j <= i { assert(t.take(j) =~= s.take(j)); if j == s.len() { assert(s.take(j) =~= s); } }
        else { assert(t.take(j) =~= s.take(j - 1).insert(i, e)); lemma_insert(s.take(j - 1), i, e); if j - 1 == s.len() { assert(s.take(j - 1) =~= s); } }
    }
}
proof fn lemma_rooted_update_open(s: Seq<Event>, i: int, e: Event)
    requires rooted(s), 0 <= i < s.len(), s[i] is Open, e is Open
    ensures rooted(s.update(i, e))
{ reveal(rooted);
    let t = s.update(i, e);
    assert forall|j: int| 1 <= j < t.len() implies depth(#[trigger] t.take(j)) >= 1 by {
        if j <= i { assert(t.take(j) =~= s.take(j)); }
        else { assert(t.take(j) =~= s.take(j).update(i, e)); lemma_update_open_depth(s.take(j), i, e); }
    }
}

// ---------- C20: where syntax errors point ----------
// the empty range at the end of the text: `TextRange::empty(TextSize::from(src.len() as u32))`
spec fn eof_range(src: &str) -> TextRange { TextRange { start: src.len() as u32, end: src.len() as u32 } }
// an error range is the whole range of one of the parser's tokens, or the empty range at the end of the text
spec fn err_range_ok(tokens: Seq<LexToken>, eof: TextRange, r: TextRange) -> bool {
    (exists|i: int| 0 <= i < tokens.len() && (#[trigger] tokens[i]).range == r) || r == eof
}

// opaque, and a function of the three things it depends on: for everything but Parser::error the frame clause
// `old.errs_ok() ==> new.errs_ok()` then follows by congruence, without the quantifier ever being unfolded
#[verifier::opaque]
spec fn errs_ok3(tokens: Seq<LexToken>, eof: TextRange, errors: Seq<Error>) -> bool {
    forall|j: int| 0 <= j < errors.len() ==> err_range_ok(tokens, eof, (#[trigger] errors[j]).range)
}
proof fn lemma_errs_push(tokens: Seq<LexToken>, eof: TextRange, errors: Seq<Error>, e: Error)
    requires errs_ok3(tokens, eof, errors), err_range_ok(tokens, eof, e.range)
    ensures errs_ok3(tokens, eof, errors.push(e))
{ reveal(errs_ok3); }

impl<'i> Parser<'i> {
    spec fn errs_ok(&self) -> bool { errs_ok3(self.tokens@, eof_range(self.src), self.errors@) }
    spec fn kind_at(&self, i: int) -> SyntaxKind {
        if 0 <= i < self.tokens@.len() { self.tokens@[i].kind } else { SyntaxKind::EOF }
    }
    spec fn cur(&self) -> SyntaxKind { self.kind_at(self.pos as int) }
    spec fn rem(&self) -> int { self.tokens@.len() - self.pos }
    // wf = wf_tok (cursor and token vector: what keeps indexing and the progress measure sound; C02)
    //    && wf_ev  (event discipline: what the tree builder relies on; C01)
    spec fn wf_tok(&self) -> bool {
        &&& self.pos <= self.tokens@.len()
        &&& self.tokens@.len() + 8 <= usize::MAX   // look-ahead index arithmetic; a Vec of 40-byte tokens cannot be this long
        &&& forall|i: int| 0 <= i < self.tokens@.len() ==> is_tok(#[trigger] self.tokens@[i].kind)
        &&& self.depth <= MAX_DEPTH
        &&& self.fuel <= VFUEL
    }
    // wf_ev0: the event discipline proper; wf_ev additionally says "inside the root node", which holds everywhere
    // except at the entry and exit of `module`
    spec fn wf_ev0(&self) -> bool {
        &&& n_adv(self.events@) == self.pos
        &&& nested(self.events@)
        &&& depth(self.events@) >= 0
        &&& rooted(self.events@)
    }
    spec fn wf_ev(&self) -> bool { self.wf_ev0() && inroot(self.events@) }
    spec fn wf(&self) -> bool { self.wf_tok() && self.wf_ev() }
    spec fn wf0(&self) -> bool { self.wf_tok() && self.wf_ev0() }
    // precondition of the tree builder: what `module` leaves behind (L1) + the trivia-filter line of parse_module
    spec fn bt_pre(&self) -> bool {
        &&& self.events@.len() >= 2
        &&& self.events@[0] == (Event::Open { kind: SyntaxKind::SOURCE_FILE })
        &&& self.events@.last() is Close
        &&& depth(self.events@) == 0
        &&& rooted(self.events@)
        &&& n_adv(self.events@) == n_real(self.tokens_raw@, self.tokens_raw@.len() as int)
    }
}
// frame: what every grammar function leaves alone
spec fn is_open(s: Seq<Event>, i: int) -> bool { 0 <= i < s.len() && s[i] is Open }
spec fn ext(o: Parser, n: Parser) -> bool { extd(o, n, 0) }
// ... with the nesting counter changed by dd (only Parser::enter / Parser::leave have dd != 0)
spec fn extd(o: Parser, n: Parser, dd: int) -> bool { extd0(o, n, dd) && inroot(n.events@) }
spec fn ext0(o: Parser, n: Parser) -> bool { extd0(o, n, 0) }
spec fn extd0(o: Parser, n: Parser, dd: int) -> bool {
    &&& n.wf0()
    &&& n.depth == o.depth + dd
    &&& n.tokens@ == o.tokens@
    &&& n.tokens_raw@ == o.tokens_raw@
    &&& n.src@ == o.src@
    &&& n.pos >= o.pos
    &&& n.events@.len() >= o.events@.len()
    &&& forall|i: int| is_open(o.events@, i) ==> #[trigger] is_open(n.events@, i)
    &&& (o.errs_ok() ==> n.errs_ok())   // C20: nobody but Parser::error records errors
}

// ---------- token sets: bit-level view ----------
spec fn bit(b: u128, k: SyntaxKind) -> bool { b & (1u128 << (kidx(k) as u128)) != 0 }
impl TokenSet { spec fn has(&self, k: SyntaxKind) -> bool { bit(self.0, k) } }
// "k occurs among the first i elements of s"
spec fn has_upto(s: Seq<SyntaxKind>, i: int, k: SyntaxKind) -> bool { exists|j: int| 0 <= j < i && #[trigger] s[j] == k }
spec fn seq_has(s: Seq<SyntaxKind>, k: SyntaxKind) -> bool { has_upto(s, s.len() as int, k) }

proof fn lemma_bit_zero()
    ensures forall|k: SyntaxKind| kidx(k) < 128 ==> !#[trigger] bit(0u128, k)
{
    assert(forall|y: u128| y < 128 ==> 0u128 & (1u128 << y) == 0) by(bit_vector);
}
proof fn lemma_bv_or1(a: u128, x: u128, y: u128)
    requires x < 128, y < 128
    ensures ((a | (1u128 << x)) & (1u128 << y) != 0) <==> ((a & (1u128 << y) != 0) || x == y)
{
    assert(x < 128 && y < 128 ==> (((a | (1u128 << x)) & (1u128 << y) != 0) <==> ((a & (1u128 << y) != 0) || x == y))) by(bit_vector);
}
proof fn lemma_bit_or(a: u128, b: u128)
    ensures forall|k: SyntaxKind| kidx(k) < 128 ==> (#[trigger] bit(a | b, k) <==> (bit(a, k) || bit(b, k)))
{
    assert(forall|m: u128| ((a | b) & m != 0) <==> ((a & m != 0) || (b & m != 0))) by(bit_vector);
}
proof fn lemma_tokenset_step(res: u128, kinds: Seq<SyntaxKind>, i: int)
    requires 0 <= i < kinds.len(), kidx(kinds[i]) < 128,
        forall|k: SyntaxKind| kidx(k) < 128 ==> (#[trigger] bit(res, k) <==> has_upto(kinds, i, k)),
    ensures forall|k: SyntaxKind| kidx(k) < 128 ==> (#[trigger] bit(res | (1u128 << (kidx(kinds[i]) as u128)), k) <==> has_upto(kinds, i + 1, k)),
{
    let x = kidx(kinds[i]) as u128;
    assert forall|k: SyntaxKind| kidx(k) < 128 implies (#[trigger] bit(res | (1u128 << x), k) <==> has_upto(kinds, i + 1, k)) by {
        lemma_bv_or1(res, x, kidx(k) as u128);
        assert((kidx(k) as u128 == x) <==> (k == kinds[i])) by { assert(forall|a: SyntaxKind, b: SyntaxKind| kidx(a) == kidx(b) ==> a == b); }
        assert(bit(res | (1u128 << x), k) <==> (bit(res, k) || k == kinds[i]));
        if has_upto(kinds, i, k) { let j = choose|j: int| 0 <= j < i && #[trigger] kinds[j] == k; assert(0 <= j < i + 1 && kinds[j] == k); }
        if k == kinds[i] { assert(0 <= i < i + 1 && kinds[i] == k); }
        if has_upto(kinds, i + 1, k) { let j = choose|j: int| 0 <= j < i + 1 && #[trigger] kinds[j] == k; if j < i { assert(has_upto(kinds, i, k)); } }
    }
}
// ---------- progress-guard fuel (R10 makes it a plain field) ----------
// look-aheads one level of nesting may spend while the recursion unwinds without consuming a token
spec const FUEL_U: int = 9;
// everything but the fuel is untouched (contract of the look-ahead methods nth / at / at_any)
spec fn same_but_fuel(o: Parser, n: Parser) -> bool {
    n.tokens@ == o.tokens@ && n.tokens_raw@ == o.tokens_raw@ && n.src@ == o.src@ && n.pos == o.pos && n.depth == o.depth && n.events@ == o.events@ && n.errors@ == o.errors@
}
// fuel accounting of a grammar function: nothing consumed => at most `pre` look-aheads were spent;
// otherwise the fuel was reset by the last bump and at most a + FUEL_U * (levels of nesting left) were spent since
// (9 == FUEL_U, written as a literal to keep the arithmetic linear)
spec fn fuel_ok(o: Parser, n: Parser, pre: int, a: int) -> bool {
    if n.pos == o.pos { n.fuel >= o.fuel - pre } else { n.fuel >= VFUEL - (a + 9 * (MAX_DEPTH + 1 - o.depth)) }
}

// ---------- abbreviations used by contracts/parser.spec ----------
// frame + depth change d  (d = 0: balanced; d = -1: finishes a node it was handed; d = +1: inside a loop under one open node)
// (o is inside the root: every function that states lp starts there, and marks it creates have index >= 1)
spec fn lp(o: Parser, n: Parser, d: int) -> bool { ext(o, n) && depth(n.events@) == depth(o.events@) + d && o.events@.len() >= 1 }
// progress: at least one token consumed
spec fn prog(o: Parser, n: Parser) -> bool { n.pos > o.pos }
// a returned MarkClosed lies in the part of the event list this call appended
spec fn mark_ok(o: Parser, n: Parser, r: MarkClosed) -> bool { r.index >= o.events@.len() && r.index <= n.events@.len() }
// a MarkOpened handed to a function that has to finish it
// (depth >= 2: its own node and the root, so that finishing the mark stays inside the root)
spec fn handed(p: Parser, m: MarkOpened) -> bool { p.wf() && open_at(p, m) && depth(p.events@) >= 2 }
spec fn open_at(p: Parser, m: MarkOpened) -> bool { is_open(p.events@, m.index as int) }
// generated by the extractor from the code's own constants (R4), shown for two of them:
// spec fn TYPE_FIRST_spec(k) = k == FN_KW || k == HASH || k == IDENT || k == U_IDENT || k == DISCARD_IDENT
// exec const TYPE_FIRST: TokenSet ensures forall|k| kidx(k) < 128 ==> (#[trigger] TYPE_FIRST.has(k) <==> TYPE_FIRST_spec(k)) { <original initialiser> }
