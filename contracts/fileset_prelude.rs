// ---------- stand-ins for the file-set unit ----------
// ide::VfsPath: an opaque key type (its derive(Clone, PartialEq, Eq, Hash) impls are the standard ones)
#[verifier::external_body]
pub struct VfsPath { _x: u8 }
#[verifier::external]
impl Clone for VfsPath { fn clone(&self) -> Self { VfsPath { _x: self._x } } }
#[verifier::external]
impl PartialEq for VfsPath { fn eq(&self, o: &Self) -> bool { self._x == o._x } }
#[verifier::external]
impl Eq for VfsPath {}
#[verifier::external]
impl std::hash::Hash for VfsPath { fn hash<H: std::hash::Hasher>(&self, h: &mut H) { self._x.hash(h) } }
pub assume_specification [ <VfsPath as Clone>::clone ] (p: &VfsPath) -> (r: VfsPath) ensures r == *p;
#[derive(Clone, Copy, PartialEq, Eq, Hash)]
pub struct FileId(pub u32);
pub assume_specification<'a, T: Copy> [Option::<&'a T>::copied] (o: Option<&'a T>) -> (r: Option<T>)
    ensures o is None ==> r is None, o is Some ==> r == Some(*o->Some_0);
// std: Option::filter (a refactoring of file_for_path is likely to reach for it)
pub assume_specification<T, P: FnOnce(&T) -> bool> [Option::<T>::filter] (o: Option<T>, p: P) -> (r: Option<T>)
    requires o is Some ==> p.requires((&o->Some_0,)),
    ensures o is None ==> r is None, o is Some ==> (r is None || r == o), o is Some && r is Some ==> p.ensures((&o->Some_0,), true), o is Some && r is None ==> p.ensures((&o->Some_0,), false);
// derive(Hash, PartialEq, Eq) of the two key types is a lawful hash-table key model (assumed; vstd states the same for the primitive types)
#[verifier::external_body]
proof fn axiom_key_models() ensures vstd::std_specs::hash::obeys_key_model::<VfsPath>(), vstd::std_specs::hash::obeys_key_model::<FileId>() {}
