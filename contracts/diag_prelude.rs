// ---------- stand-ins for the diagnostic-conversion unit ----------
#[derive(Clone, Copy, PartialEq, Eq)]
pub struct TextSize { pub raw: u32 }
#[derive(Clone, Copy, PartialEq, Eq)]
pub struct TextRange { pub start: u32, pub end: u32 }
// the text-size API a change of this code is likely to reach for (same two-field meaning)
impl TextRange {
    pub fn new(start: TextSize, end: TextSize) -> (r: TextRange) requires start.raw <= end.raw ensures r == (TextRange { start: start.raw, end: end.raw }) { TextRange { start: start.raw, end: end.raw } }
    pub fn at(offset: TextSize, len: TextSize) -> (r: TextRange) requires offset.raw + len.raw <= u32::MAX ensures r == (TextRange { start: offset.raw, end: (offset.raw + len.raw) as u32 }) { TextRange { start: offset.raw, end: offset.raw + len.raw } }
    pub fn empty(offset: TextSize) -> (r: TextRange) ensures r == (TextRange { start: offset.raw, end: offset.raw }) { TextRange { start: offset.raw, end: offset.raw } }
    pub fn start(self) -> (r: TextSize) ensures r.raw == self.start { TextSize { raw: self.start } }
    pub fn end(self) -> (r: TextSize) ensures r.raw == self.end { TextSize { raw: self.end } }
    pub fn is_empty(self) -> (r: bool) ensures r == (self.start == self.end) { self.start == self.end }
}
impl vstd::std_specs::convert::FromSpecImpl<u32> for TextSize {
    open spec fn obeys_from_spec() -> bool { true }
    open spec fn from_spec(raw: u32) -> Self { TextSize { raw } }
}
impl From<u32> for TextSize { fn from(raw: u32) -> Self { TextSize { raw } } }
// syntax::ErrorKind / syntax::Error (crates/syntax/src/lib.rs): an opaque Copy kind and the two public fields
#[derive(Clone, Copy, PartialEq, Eq)]
pub struct SynErrorKind { pub k: u8 }
#[derive(Clone, Copy)]
pub struct SynError { pub range: TextRange, pub kind: SynErrorKind }
pub struct FileRange { pub file: u32, pub range: TextRange }
// the From impl is verified against its own ensures (lmap-style): vstd's generic From specification is switched off for it
impl vstd::std_specs::convert::FromSpecImpl<SynError> for Diagnostic {
    open spec fn obeys_from_spec() -> bool { false }
    open spec fn from_spec(e: SynError) -> Self { arbitrary() }
}
