// C04 (operator-table clause): loop-free harness over ALL pairs of syntax kinds on the real
// private functions SyntaxKind::infix_bp / prefix_bp.  A loop-free harness over the full input
// domain is a complete proof, not a bounded one.
//
// Reference written from the property statement / Gleam's grammar: precedence LEVELS, lowest
// first.  The obligations are phrased on ORDER, never on the literal numbers of the table.
fn level(k: SyntaxKind) -> Option<u8> {
    use SyntaxKind::*;
    Some(match k {
        VBAR_VBAR => 1,
        AMPER_AMPER => 2,
        EQ_EQ | NOT_EQ => 3,
        LESS | LESS_EQ | LESS_DOT | LESS_EQ_DOT | GREATER | GREATER_EQ | GREATER_DOT | GREATER_EQ_DOT => 4,
        LT_GT => 5,
        VBAR_GT => 6,
        PLUS | MINUS | PLUS_DOT | MINUS_DOT => 7,
        STAR | SLASH | STAR_DOT | SLASH_DOT | PERCENT => 8,
        _ => return None,
    })
}

fn any_kind() -> SyntaxKind {
    let raw: u16 = kani::any();
    kani::assume(raw < SyntaxKind::__LAST as u16);
    SyntaxKind::from(rowan::SyntaxKind(raw))
}

#[kani::proof]
fn bp_table() {
    let a = any_kind();
    let b = any_kind();
    let (la, lb) = (level(a), level(b));
    let (ia, ib) = (a.infix_bp(), b.infix_bp());
    // exactly Gleam's binary operators are infix operators
    assert!(ia.is_some() == la.is_some(), "infix_bp defined exactly on Gleam's binary operators");
    if let (Some(la), Some(lb), Some((lbp_a, rbp_a)), Some((lbp_b, rbp_b))) = (la, lb, ia, ib) {
        // left associativity under the loop's `lbp < min_bp => stop`, and min_bp = 0 at the top never collides
        assert!(0 < lbp_a && lbp_a < rbp_a, "left associative: 0 < lbp < rbp");
        if la == lb {
            assert!(lbp_a == lbp_b && rbp_a == rbp_b, "same precedence level, same binding powers");
            // ... so that `a op1 b op2 c` with op1, op2 of one level groups to the left: lbp(op2) < rbp(op1)
            assert!(lbp_b < rbp_a, "operators of one level group to the left");
        }
        if la < lb {
            // the tighter operator b is absorbed into a's right operand; never the `lbp == min_bp` no-assoc error
            assert!(rbp_a < lbp_b, "tighter operator binds inside the right operand of a looser one");
        }
        kani::cover!(la < lb, "two operators of different level");
        kani::cover!(la == lb && a != b, "two distinct operators of one level");
    }
    // prefix operators
    let pa = a.prefix_bp();
    assert!(pa.is_some() == (a == SyntaxKind::BANG || a == SyntaxKind::MINUS), "prefix operators are exactly ! and -");
    if let (Some(p), Some((lbp_b, _))) = (pa, ib) {
        assert!(p > lbp_b, "a prefix operator binds tighter than any binary operator");
        kani::cover!(true, "prefix operator against an infix operator");
    }
}
