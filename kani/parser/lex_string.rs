// C01 assumption (ii): the logos callback `lexer::lex_string` (glas code inside the lexer) bumps by an amount that is
// at most the remainder, lies on a character boundary and ends just after an unescaped `"`; when it reports failure it has
// not bumped.  Bounded: every remainder of <= 3 characters over {", \\, a, U+00DF, U+1F4A3, LF} (symbolic choice among 259 strings).
const LEX_BODIES: [&str; 259] = ["", "\"", "\\", "a", "\u{df}", "\u{1f4a3}", "\n", "\"\"", "\"\\", "\"a", "\"\u{df}", "\"\u{1f4a3}", "\"\n", "\\\"", "\\\\", "\\a", "\\\u{df}", "\\\u{1f4a3}", "\\\n", "a\"", "a\\", "aa", "a\u{df}", "a\u{1f4a3}", "a\n", "\u{df}\"", "\u{df}\\", "\u{df}a", "\u{df}\u{df}", "\u{df}\u{1f4a3}", "\u{df}\n", "\u{1f4a3}\"", "\u{1f4a3}\\", "\u{1f4a3}a", "\u{1f4a3}\u{df}", "\u{1f4a3}\u{1f4a3}", "\u{1f4a3}\n", "\n\"", "\n\\", "\na", "\n\u{df}", "\n\u{1f4a3}", "\n\n", "\"\"\"", "\"\"\\", "\"\"a", "\"\"\u{df}", "\"\"\u{1f4a3}", "\"\"\n", "\"\\\"", "\"\\\\", "\"\\a", "\"\\\u{df}", "\"\\\u{1f4a3}", "\"\\\n", "\"a\"", "\"a\\", "\"aa", "\"a\u{df}", "\"a\u{1f4a3}", "\"a\n", "\"\u{df}\"", "\"\u{df}\\", "\"\u{df}a", "\"\u{df}\u{df}", "\"\u{df}\u{1f4a3}", "\"\u{df}\n", "\"\u{1f4a3}\"", "\"\u{1f4a3}\\", "\"\u{1f4a3}a", "\"\u{1f4a3}\u{df}", "\"\u{1f4a3}\u{1f4a3}", "\"\u{1f4a3}\n", "\"\n\"", "\"\n\\", "\"\na", "\"\n\u{df}", "\"\n\u{1f4a3}", "\"\n\n", "\\\"\"", "\\\"\\", "\\\"a", "\\\"\u{df}", "\\\"\u{1f4a3}", "\\\"\n", "\\\\\"", "\\\\\\", "\\\\a", "\\\\\u{df}", "\\\\\u{1f4a3}", "\\\\\n", "\\a\"", "\\a\\", "\\aa", "\\a\u{df}", "\\a\u{1f4a3}", "\\a\n", "\\\u{df}\"", "\\\u{df}\\", "\\\u{df}a", "\\\u{df}\u{df}", "\\\u{df}\u{1f4a3}", "\\\u{df}\n", "\\\u{1f4a3}\"", "\\\u{1f4a3}\\", "\\\u{1f4a3}a", "\\\u{1f4a3}\u{df}", "\\\u{1f4a3}\u{1f4a3}", "\\\u{1f4a3}\n", "\\\n\"", "\\\n\\", "\\\na", "\\\n\u{df}", "\\\n\u{1f4a3}", "\\\n\n", "a\"\"", "a\"\\", "a\"a", "a\"\u{df}", "a\"\u{1f4a3}", "a\"\n", "a\\\"", "a\\\\", "a\\a", "a\\\u{df}", "a\\\u{1f4a3}", "a\\\n", "aa\"", "aa\\", "aaa", "aa\u{df}", "aa\u{1f4a3}", "aa\n", "a\u{df}\"", "a\u{df}\\", "a\u{df}a", "a\u{df}\u{df}", "a\u{df}\u{1f4a3}", "a\u{df}\n", "a\u{1f4a3}\"", "a\u{1f4a3}\\", "a\u{1f4a3}a", "a\u{1f4a3}\u{df}", "a\u{1f4a3}\u{1f4a3}", "a\u{1f4a3}\n", "a\n\"", "a\n\\", "a\na", "a\n\u{df}", "a\n\u{1f4a3}", "a\n\n", "\u{df}\"\"", "\u{df}\"\\", "\u{df}\"a", "\u{df}\"\u{df}", "\u{df}\"\u{1f4a3}", "\u{df}\"\n", "\u{df}\\\"", "\u{df}\\\\", "\u{df}\\a", "\u{df}\\\u{df}", "\u{df}\\\u{1f4a3}", "\u{df}\\\n", "\u{df}a\"", "\u{df}a\\", "\u{df}aa", "\u{df}a\u{df}", "\u{df}a\u{1f4a3}", "\u{df}a\n", "\u{df}\u{df}\"", "\u{df}\u{df}\\", "\u{df}\u{df}a", "\u{df}\u{df}\u{df}", "\u{df}\u{df}\u{1f4a3}", "\u{df}\u{df}\n", "\u{df}\u{1f4a3}\"", "\u{df}\u{1f4a3}\\", "\u{df}\u{1f4a3}a", "\u{df}\u{1f4a3}\u{df}", "\u{df}\u{1f4a3}\u{1f4a3}", "\u{df}\u{1f4a3}\n", "\u{df}\n\"", "\u{df}\n\\", "\u{df}\na", "\u{df}\n\u{df}", "\u{df}\n\u{1f4a3}", "\u{df}\n\n", "\u{1f4a3}\"\"", "\u{1f4a3}\"\\", "\u{1f4a3}\"a", "\u{1f4a3}\"\u{df}", "\u{1f4a3}\"\u{1f4a3}", "\u{1f4a3}\"\n", "\u{1f4a3}\\\"", "\u{1f4a3}\\\\", "\u{1f4a3}\\a", "\u{1f4a3}\\\u{df}", "\u{1f4a3}\\\u{1f4a3}", "\u{1f4a3}\\\n", "\u{1f4a3}a\"", "\u{1f4a3}a\\", "\u{1f4a3}aa", "\u{1f4a3}a\u{df}", "\u{1f4a3}a\u{1f4a3}", "\u{1f4a3}a\n", "\u{1f4a3}\u{df}\"", "\u{1f4a3}\u{df}\\", "\u{1f4a3}\u{df}a", "\u{1f4a3}\u{df}\u{df}", "\u{1f4a3}\u{df}\u{1f4a3}", "\u{1f4a3}\u{df}\n", "\u{1f4a3}\u{1f4a3}\"", "\u{1f4a3}\u{1f4a3}\\", "\u{1f4a3}\u{1f4a3}a", "\u{1f4a3}\u{1f4a3}\u{df}", "\u{1f4a3}\u{1f4a3}\u{1f4a3}", "\u{1f4a3}\u{1f4a3}\n", "\u{1f4a3}\n\"", "\u{1f4a3}\n\\", "\u{1f4a3}\na", "\u{1f4a3}\n\u{df}", "\u{1f4a3}\n\u{1f4a3}", "\u{1f4a3}\n\n", "\n\"\"", "\n\"\\", "\n\"a", "\n\"\u{df}", "\n\"\u{1f4a3}", "\n\"\n", "\n\\\"", "\n\\\\", "\n\\a", "\n\\\u{df}", "\n\\\u{1f4a3}", "\n\\\n", "\na\"", "\na\\", "\naa", "\na\u{df}", "\na\u{1f4a3}", "\na\n", "\n\u{df}\"", "\n\u{df}\\", "\n\u{df}a", "\n\u{df}\u{df}", "\n\u{df}\u{1f4a3}", "\n\u{df}\n", "\n\u{1f4a3}\"", "\n\u{1f4a3}\\", "\n\u{1f4a3}a", "\n\u{1f4a3}\u{df}", "\n\u{1f4a3}\u{1f4a3}", "\n\u{1f4a3}\n", "\n\n\"", "\n\n\\", "\n\na", "\n\n\u{df}", "\n\n\u{1f4a3}", "\n\n\n"];

#[kani::proof]
#[kani::unwind(8)]
fn lex_string_contract() {
    let i: usize = kani::any();
    kani::assume(i < LEX_BODIES.len());
    let body = LEX_BODIES[i];
    let mut lex = <SyntaxKind as crate::lexer::Logos>::lexer(body);
    let before = lex.span().end;
    let ok = crate::lexer::lex_string(&mut lex);
    let n = lex.span().end - before;
    if ok {
        assert!(n >= 1 && n <= body.len(), "lex_string bumps inside the remainder");
        assert!(body.is_char_boundary(n), "lex_string bumps to a character boundary");
        assert!(body.as_bytes()[n - 1] == b'"', "the bumped text ends with the closing quote");
        // the closing quote is not escaped: an even number of backslashes directly before it
        let mut k = n - 1;
        let mut bs = 0usize;
        while k > 0 && body.as_bytes()[k - 1] == b'\\' { bs += 1; k -= 1; }
        assert!(bs % 2 == 0, "the closing quote is not escaped");
    } else {
        assert!(n == 0, "a failed string callback does not bump");
    }
    kani::cover!(ok && n == body.len(), "string closed at the end of the remainder");
    kani::cover!(ok && n < body.len(), "string closed before the end of the remainder");
    kani::cover!(!ok && body.len() > 0, "unterminated string");
}
