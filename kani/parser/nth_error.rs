// Contracts of Parser::nth and Parser::error - the two methods the Verus unit takes as
// external_body (R7) - checked here on the same text.  Symbolic token vector of length <= 3
// (kinds over all token kinds, symbolic ranges), symbolic pos, look-ahead <= 2, symbolic fuel.
const SRCS: [&str; 3] = ["", "ab", "a\u{df}c\n"];

fn any_token_kind() -> SyntaxKind {
    let raw: u16 = kani::any();
    kani::assume(raw < SyntaxKind::EOF as u16);
    SyntaxKind::from(rowan::SyntaxKind(raw))
}

fn any_token() -> LexToken<'static> {
    let s: u32 = kani::any();
    let e: u32 = kani::any();
    kani::assume(s <= e);
    LexToken { kind: any_token_kind(), text: "x", range: TextRange::new(TextSize::from(s), TextSize::from(e)) }
}

/// token vector of symbolic length 0..=3
fn any_tokens() -> Vec<LexToken<'static>> {
    let mut v = vec![any_token(), any_token(), any_token()];
    let n: usize = kani::any();
    kani::assume(n <= 3);
    v.truncate(n);
    v
}

fn any_parser() -> Parser<'static> {
    let tokens = any_tokens();
    let pos: usize = kani::any();
    kani::assume(pos <= tokens.len());
    let which: usize = kani::any();
    kani::assume(which < SRCS.len());
    let fuel: u32 = kani::any();
    let depth: usize = kani::any();
    let events = if kani::any() { vec![Event::Open { kind: SyntaxKind::ERROR }, Event::Advance] } else { Vec::new() };
    Parser { tokens, tokens_raw: Vec::new(), pos, depth, src: SRCS[which], fuel: Cell::new(fuel), errors: Vec::new(), events }
}

fn same_event(a: &Event, b: &Event) -> bool {
    match (a, b) {
        (Event::Open { kind: x }, Event::Open { kind: y }) => x == y,
        (Event::Close, Event::Close) => true,
        (Event::Advance, Event::Advance) => true,
        _ => false,
    }
}

#[kani::proof]
#[kani::unwind(5)]
fn nth_contract() {
    let p = any_parser();
    let fuel0 = p.fuel.get();
    kani::assume(fuel0 > 0); // the progress guard itself is outside this contract (DESIGN.md 3.2)
    let k: usize = kani::any();
    kani::assume(k <= 2);
    let pos0 = p.pos;
    let n_ev = p.events.len();
    let r = p.nth(k);
    // ensures r == self.kind_at(self.pos + lookahead)
    if pos0 + k < p.tokens.len() {
        assert!(r == p.tokens[pos0 + k].kind, "nth returns the kind of the token at pos + lookahead");
        assert!((r as u16) < SyntaxKind::EOF as u16);
    } else {
        assert!(r == SyntaxKind::EOF, "nth returns EOF past the end");
    }
    assert!(p.pos == pos0 && p.events.len() == n_ev, "nth does not move the parser");
    assert!(p.fuel.get() == fuel0 - 1, "nth burns exactly one unit of fuel");
    kani::cover!(pos0 + k < p.tokens.len(), "look-ahead inside the token vector");
    kani::cover!(pos0 + k >= p.tokens.len() && p.tokens.len() > 0, "look-ahead past the end");
}

#[kani::proof]
#[kani::unwind(5)]
fn error_contract() {
    let mut p = any_parser();
    let tokens0 = p.tokens.clone();
    let (pos0, depth0, src0) = (p.pos, p.depth, p.src);
    let n_ev = p.events.len();
    let kind = if kani::any() { ErrorKind::ExpectedStatement } else { ErrorKind::ExpectToken(any_token_kind()) };
    p.error(kind);
    // frame (what the Verus unit assumes): tokens, tokens_raw, src, pos, depth, events untouched
    assert!(p.tokens == tokens0 && p.tokens_raw.is_empty(), "error leaves the token vectors alone");
    assert!(p.pos == pos0 && p.depth == depth0, "error leaves pos and depth alone");
    assert!(p.src.as_ptr() == src0.as_ptr() && p.src.len() == src0.len(), "error leaves src alone");
    assert!(p.events.len() == n_ev, "error pushes no event");
    if n_ev == 2 {
        assert!(same_event(&p.events[0], &Event::Open { kind: SyntaxKind::ERROR }) && same_event(&p.events[1], &Event::Advance), "error leaves the events alone");
    }
    // C20 clause: exactly one error, located at the current token or empty at the end of the text
    assert!(p.errors.len() == 1, "exactly one error is recorded");
    let e = p.errors[0];
    assert!(e.kind == kind);
    if pos0 < tokens0.len() {
        assert!(e.range == tokens0[pos0].range, "error range is the range of the current token");
    } else {
        let end = TextSize::from(src0.len() as u32);
        assert!(e.range == TextRange::new(end, end), "at end of input the error range is empty at the end of the text");
        assert!(usize::from(e.range.end()) <= src0.len());
    }
    kani::cover!(pos0 < tokens0.len(), "error at a token");
    kani::cover!(pos0 == tokens0.len() && tokens0.len() > 0, "error at end of input");
}
