"""Deductive part of C19: the real convert::to_semantic_tokens / to_range and semantic_tokens::to_semantic_type_and_modifiers,
extracted per run (tools/extract_semtok.py), verified by Verus against contracts/semtok.spec for ALL highlight lists and
ALL line maps that satisfy LineMap::ok (the line map's own contract, which the Kani unit checks on enumerated documents)."""
import os
import shutil

import extract_semtok
import weave
from common import VERIF, REPO, scratch, Undecided, norm
from rustcut import AnchorLost
from verus_run import verus, locate, obligation_id

CANARIES = [
    {'name': 'verus: delta_start not relative to the previous token', 'file': 'crates/glas/src/convert.rs',
     'old': '                delta_start: start - prev_start,', 'new': '                delta_start: start,'},
    {'name': 'verus: previous column not reset on a new line', 'file': 'crates/glas/src/convert.rs',
     'old': '            if line != prev_line {\n                prev_start = 0;\n            }\n', 'new': ''},
]


def build(repo, outdir):
    ex = extract_semtok.extract(repo)
    fns, loops = weave.parse_spec(open(os.path.join(VERIF, 'contracts/semtok.spec')).read())
    text, linemap, info = extract_semtok.assemble(ex, open(os.path.join(VERIF, 'contracts/semtok_prelude.rs')).read(), fns, loops)
    os.makedirs(outdir, exist_ok=True)
    unit = os.path.join(outdir, 'semtok_unit.rs')
    open(unit, 'w').write(text)
    return ex, text, linemap, info, unit


def run(repo=REPO, tag='semtok'):
    """-> dict(status='verified'|'failed'|'undecided', ...)"""
    try:
        ex, text, linemap, info, unit = build(repo, os.path.join(scratch(), tag))
        res = verus(unit, multiple_errors=10, threads=4)
    except (AnchorLost, weave.SpecError, Undecided, OSError) as e:
        return {'status': 'undecided', 'why': str(e)[:800]}
    fails = []
    for f in res['failures']:
        loc = locate(linemap, f['line'])
        fn = loc[0] if loc else None
        fails.append({'fn': fn, 'id': obligation_id('semtok', fn, f), 'rendered': f['rendered'],
                      'where': ('%s:%d (%s)' % (loc[1], loc[2], fn)) if loc else 'contracts/semtok_prelude.rs (hand-written specification)'})
    import prop_parser
    reach = None
    if not fails:
        # vacuity guard: the precondition of the encoder's contract must be satisfiable (Verus has to REJECT this)
        rp = os.path.join(os.path.dirname(unit), 'semtok_reach.rs')
        probe = ('proof fn reach_semtok(lm: &LineMap, hls: Seq<HlRange>)\n    requires lm.ok(), hls_ok(lm, hls), hls.len() >= 2, hls[0].range.s() < hls[0].range.e(),\n{ assert(false); }\n')
        open(rp, 'w').write(text.replace('} // verus!', probe + '} // verus!'))
        try:
            rr = verus(rp, multiple_errors=2, threads=4)
            reach = 'rejected-as-required' if rr['errors'] == 1 and len(rr['failures']) == 1 and 'assertion failed' in rr['failures'][0]['message'] else 'VACUOUS'
        except Undecided as e:
            reach = 'undecided: %s' % str(e)[:200]
    return {'status': 'failed' if fails else 'verified', 'reachability_guard': reach, 'verified': res['verified'], 'errors': res['errors'], 'failures': fails,
            'cmd': res['cmd'], 'smt_ms': res['smt_ms'], 'total_ms': res['total_ms'], 'wall_s': res['wall_s'],
            'functions_under_contract': info['contracted'], 'loops_under_contract': info['loops_contracted'],
            'rewrites': ex['notes'], 'legend': ex['legend'], 'assumptions_scanned': prop_parser.scan_assumptions(text),
            'per_function_ms': {k: round(v['ms'], 1) for k, v in sorted(res['func_times'].items())}}


def canary(c, idx):
    d = os.path.join(scratch(), 'stcanary%d' % idx)
    for sub in ('crates/glas/src', 'crates/ide/src/ide'):
        shutil.copytree(os.path.join(REPO, sub), os.path.join(d, sub))
    p = os.path.join(d, c['file'])
    s = open(p).read()
    if s.count(c['old']) != 1:
        return {'name': c['name'], 'status': 'skipped', 'why': 'mutation site not found exactly once in the working tree'}
    open(p, 'w').write(s.replace(c['old'], c['new']))
    r = run(d, 'stcanary%d_u' % idx)
    shutil.rmtree(d, ignore_errors=True)
    if r['status'] == 'failed':
        return {'name': c['name'], 'status': 'tripped', 'obligation': r['failures'][0]['id'][:300]}
    return {'name': c['name'], 'status': 'NOT-TRIPPED' if r['status'] == 'verified' else 'undecided', 'why': r.get('why', '')[:200]}


if __name__ == '__main__':
    import json
    import sys
    r = run(sys.argv[1] if len(sys.argv) > 1 else REPO)
    print(json.dumps({k: v for k, v in r.items() if k not in ('per_function_ms',)}, indent=1)[:3000])
    for i, c in enumerate(CANARIES):
        print(canary(c, i))
