"""C20 (partial: syntax-error ranges): Kani contract harness on the real Parser::error (and
Parser::nth, whose contract the Verus unit assumes), inside a per-run copy of crates/syntax."""
import concurrent.futures as cf
import json
import os
import re
import shutil
import time

import kani_run
import prop_parser
import side_unit
import witness
from common import seed
from common import VERIF, REPO, scratch, Undecided, write_evidence, write_replay, finish

HARNESS = os.path.join(VERIF, 'kani/parser/nth_error.rs')
HARNESSES = ['parser::verif_kani::error_contract', 'parser::verif_kani::nth_contract']
CANARIES = [
    {'name': 'error-range-of-next-token', 'harness': 'parser::verif_kani::error_contract',
     'edits': [('            .get(self.pos)\n            .map(|&LexToken { range, .. }| range)', '            .get(self.pos + 1)\n            .map(|&LexToken { range, .. }| range)')]},
    {'name': 'nth-ignores-lookahead', 'harness': 'parser::verif_kani::nth_contract',
     'edits': [('            .get(self.pos + lookahead)\n', '            .get(self.pos)\n')]},
]


def prepare(repo, dest):
    return kani_run.standalone_syntax_crate(repo, dest, [HARNESS])


def run_canary(c, idx):
    d = os.path.join(scratch(), 'c20canary%d' % idx)
    prepare(REPO, d)
    p = os.path.join(d, 'src/parser.rs')
    s = open(p).read()
    for old, new in c['edits']:
        if s.count(old) != 1:
            shutil.rmtree(d, ignore_errors=True)
            return {'name': c['name'], 'status': 'skipped', 'why': 'mutation site not found exactly once'}
        s = s.replace(old, new)
    open(p, 'w').write(s)
    r = kani_run.cargo_kani(d, c['harness'], timeout=900)
    shutil.rmtree(d, ignore_errors=True)
    if r['status'] == 'FAILED':
        return {'name': c['name'], 'status': 'tripped', 'obligation': r['failed_checks'][0]['description']}
    return {'name': c['name'], 'status': 'NOT-TRIPPED' if r['status'] == 'SUCCESSFUL' else 'undecided', 'kani_status': r['status']}


def main(prop, tier):
    t0 = time.time()
    d = os.path.join(scratch(), 'syntax_kani')
    try:
        prepare(REPO, d)
        with cf.ThreadPoolExecutor(max_workers=6) as pool:
            fc = [pool.submit(run_canary, c, i) for i, c in enumerate(CANARIES)]
            # deductive part: the parser unit carries the invariant `errs_ok` (every recorded error points at a whole token of the
            # parser or is empty at the end of the text) through all grammar functions and the tree builder, for all inputs
            fded = pool.submit(prop_parser.c20_part, os.path.join(scratch(), 'unit_c20'))
            # bounded native stand-in on the real crate: every syntax error of every enumerated input points at a whole token or
            # is empty at the end of the text (catches what neither the Verus unit nor the contract harness can ingest)
            # deductive side unit: the conversion of a syntax error into a diagnostic keeps exactly the parser's range
            fdiag = pool.submit(side_unit.run, 'diag')
            fdiagc = pool.submit(side_unit.canary, 'diag', side_unit.UNITS['diag']['canaries'][0], 0)
            fnat = pool.submit(witness.enumerate_inputs, 2 if tier == 'quick' else 3, 45 if tier == 'quick' else 400, seed(), REPO, ['error-range'])
            # ... and of the deep-nesting inputs (the depth limit records its own error and skips the rest of the input)
            fdeep = pool.submit(witness.deep_check, (105, 150), ['error-range'], REPO)
            results = kani_run.run_many(d, HARNESSES, (), 900, jobs=2)
            can = [f.result() for f in fc]
            ded = fded.result()
            diag, diagc = fdiag.result(), fdiagc.result()
            try:
                nat_w, nat_n = fnat.result()
            except Undecided:
                nat_w, nat_n = None, 0
            try:
                deep_w, deep_n = fdeep.result()
            except Undecided:
                deep_w, deep_n = None, 0
            if deep_w and not nat_w:
                nat_w = deep_w
    except (Undecided, OSError) as e:
        return undecided(prop, tier, t0, str(e))
    bad = [r for r in results if r['status'] in ('ERROR', 'TIMEOUT')]
    if bad:
        return undecided(prop, tier, t0, 'kani did not decide %s (%s): %s' % (bad[0]['harness'], bad[0]['status'], bad[0]['raw_tail'][-600:]))
    violations, guard = [], []
    for r in results:
        if r['status'] == 'SUCCESSFUL' and (not r['covers'] or r['covers'][0] != r['covers'][1]):
            guard.append('%s: cover properties not all satisfied %s' % (r['harness'], r['covers']))
        if r['status'] == 'FAILED':
            tests = kani_run.playback_failure(d, r['harness'])
            for fcheck in r['failed_checks']:
                t = next((t for t in tests if t['description'] == fcheck['description'] and t['native'].startswith('FAILED')), None)
                wit = {'kind': 'kani-playback', 'concrete_vals': t['concrete_vals'], 'test_source': t['test_source'], 'observed': t['native']} if t else None
                path = write_replay(prop, 'parser_kani :: %s :: %s' % (r['harness'].split('::')[-1], fcheck['description']),
                                    'crates/syntax/src/parser.rs (%s)' % ('Parser::error' if 'error' in r['harness'] else 'Parser::nth'),
                                    'kani 0.68.0 / cbmc 6.11', json.dumps(fcheck), wit, './check C20 --replay <this file>')
                violations.append((path, wit is not None))
    if nat_w and nat_w.get('kind') == 'error-range':
        path = write_replay(prop, 'parser :: bounded-check :: syntax-error range :: enumerated input', 'crates/syntax/src/parser.rs', 'native driver (bounded stand-in, real crate)',
                            nat_w['observed'], nat_w, './check C20 --replay <this file>')
        violations.append((path, True))
    if ded['status'] == 'failed':
        seen = set()
        for f in ded['failures']:
            if f['fn'] in seen:
                continue
            seen.add(f['fn'])
            path = write_replay(prop, f['id'], f['where'], 'verus 0.2026.09.13', '\n'.join(x['rendered'] for x in ded['failures'] if x['fn'] == f['fn']), None,
                                './check C20 --replay <this file>')
            violations.append((path, False))
    if diag['status'] == 'failed':
        seen = set()
        for f in diag['failures']:
            if f['fn'] in seen:
                continue
            seen.add(f['fn'])
            path = write_replay(prop, f['id'], f['where'], 'verus 0.2026.09.13', '\n'.join(x['rendered'] for x in diag['failures'] if x['fn'] == f['fn']), None,
                                './check C20 --replay <this file>')
            violations.append((path, False))
    elif diag['status'] == 'verified':
        if diag.get('reachability_guard') != 'rejected-as-required':
            guard.append('diag unit: precondition reachability guard: %s' % diag.get('reachability_guard'))
        if diagc['status'] == 'NOT-TRIPPED':
            guard.append('diag unit: canary not detected')
    if all(r['status'] == 'SUCCESSFUL' for r in results):
        if any(c['status'] == 'NOT-TRIPPED' for c in can):
            guard.append('canary not detected: %s' % [c['name'] for c in can if c['status'] == 'NOT-TRIPPED'])
        if not any(c['status'] == 'tripped' for c in can):
            guard.append('no canary could be run')
    n = sum(r.get('n_checks', r['checks']) for r in results)
    cov = {'evaluations': n, 'distinct_nontrivial': sum(1 for r in results if r['covers'] and r['covers'][0] == r['covers'][1] and r['covers'][1] > 0) + sum(r['covers'][0] for r in results if r['covers']),
           'rule': 'evaluations = CBMC properties checked over the harnesses; distinct_nontrivial = harnesses whose cover properties were all satisfied plus the satisfied cover properties themselves (each a distinct reachable situation: error at a token, error at end of input, look-ahead inside / past the token vector)',
           'samples': [{'harness': r['harness'], 'status': r['status'], 'checks': r.get('n_checks'), 'covers': r['covers'], 'cbmc_s': r.get('cbmc_s'),
                        'domain': 'token vector of symbolic length <= 3, kinds over all token kinds, symbolic u32 ranges, symbolic pos <= len, 3 sources, symbolic fuel/depth'} for r in results],
           'exhaustive': False,
           'bound': 'token-vector length <= 3 (the two methods index a single position; everything else is symbolic over its full domain), unwind 5 with unwinding assertions',
           'decided_clause': 'every syntax error is located at the current token (its whole range) or is empty at the end of the text; nothing else of C20 is decided',
           'functions_under_contract': ['Parser::error', 'Parser::nth'],
           'canaries': can + [diagc],
           'deductive_part_diagnostic_conversion': {k: v for k, v in diag.items() if k != 'per_function_ms'},
           'checker_cmd': results[0]['cmd'],
           'deductive_part': {k: v for k, v in ded.items() if k != 'failures'},
           'native_enumeration': {'what': 'every syntax error of parse_module(input) has the whole range of a token of the tree or is empty at the end of the text', 'inputs_run': nat_n, 'deep_nesting_inputs_run': deep_n,
                                  'bound': 'all sequences of <= %d tokens over a 52-token alphabet in 11 contexts (time budget)' % (2 if tier == 'quick' else 3), 'failed': bool(nat_w)}}
    if ded['status'].startswith('verified'):
        cov['obligations'], cov['discharged'] = ded['verified'] + ded['errors'], ded['verified']
        if diag['status'] == 'verified':
            cov['obligations'] += diag['verified'] + diag['errors']
            cov['discharged'] += diag['verified']
    write_evidence(prop, tier, 'model_checking', cov,
                   ['deductive part (Verus, the parser unit of C01/C02): the frame of every grammar function and of the tree builder carries `old.errs_ok() ==> new.errs_ok()`, and the end-to-end lemma verif_parse concludes that EVERY error of the returned Parse points at the whole range of one of the parser\'s tokens or is the empty range at the end of the text - for all inputs - given the contract of Parser::error, which is what the Kani harness error_contract checks on the real text; a grammar function that pushed to `errors` itself, or an error recorded with any other range, fails a named obligation (attributed to C20 by re-verifying with the invariant switched off)',
                    'deductive side unit diag (Verus): Diagnostic::new and impl From<syntax::Error> for Diagnostic (crates/ide/src/diagnostic.rs, verbatim) - a syntax error becomes a diagnostic with exactly the parser\'s range and no notes; the step in between, ide::diagnostics (salsa query, iterator adapters), and glas::convert::to_diagnostics (lsp_types) are not verified; to_range is verified in the C19 unit. If the unit cannot be extracted it is reported undecided here and nothing is claimed from it',
                    'logos token spans tile 0..len on char boundaries (assumption i of DESIGN.md 3.1): with it, the proved error ranges are in bounds and on boundaries',
                    'all other answer kinds of C20 (hover, definitions, references, highlights, rename edits, completions, semantic highlights) take their ranges from rowan cursors inside crate ide, which neither verifier ingests: NOT decided',
                    'Kani 0.68 / CBMC 6.11'], time.time() - t0, len(violations))
    # (a deductive part that cannot be built or needs a contract for a new helper is recorded in the evidence; the claim
    # level of C20 is bounded, so the contract harness and the native enumeration decide in that case)
    if guard:
        finish(prop, [], [], 'vacuity guard failed: ' + '; '.join(guard))
    finish(prop, violations, [])


def undecided(prop, tier, t0, msg):
    write_evidence(prop, tier, 'model_checking', {'evaluations': 1, 'distinct_nontrivial': 2, 'samples': ['UNDECIDED'], 'explanation': 'UNDECIDED: ' + msg[:1500]},
                   [], time.time() - t0, 0)
    finish(prop, [], [], msg[:1500])


def replay(prop, path):
    r = json.load(open(path))
    w = r.get('witness')
    if w and w.get('kind') == 'error-range':
        text = w['input']
        if w.get('input_recipe'):
            nm, n = w['input_recipe'].rsplit(' x ', 1)
            text = witness.deep_input(nm, int(n))
        res = witness.run_one(text)
        print('replay on the working tree: %s' % (('%s: %s' % (res['kind'], res['observed'][:300])) if res else 'no symptom'))
        return 1 if res else 0
    if not w or not w.get('test_source'):
        print('replay: no concrete witness; failed obligation: %s\n%s' % (r.get('obligation'), r.get('verifier_output')))
        return 1
    d = os.path.join(scratch(), 'replay_kani')
    prepare(REPO, d)
    tests = [{'test_name': re.search(r'fn (kani_concrete_playback_\w+)', w['test_source']).group(1), 'test_source': w['test_source'], 'native': 'not-run'}]
    kani_run.run_playback_tests(d, tests)
    print('replay on the working tree: %s' % tests[0]['native'])
    return 1 if tests[0]['native'].startswith('FAILED') else 0
