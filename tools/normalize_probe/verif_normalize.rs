
// ---- appended by /verif/tools/normalize_probe.py to a SCRATCH copy of crates/glas/src/vfs.rs (never to /repo) ----
// Bounded native stand-in for the one line-map function outside Verus: for EVERY document of <= L characters over
// {a, LF, CR, U+00DF (2 bytes), U+211D (3 bytes), U+1F4A3 (4 bytes, surrogate pair)} the real LineMap::normalize
//  (1) stores the text without CR,
//  (2) builds a line map that satisfies LineMap::wf - the representation invariant the Verus unit `lmap` assumes - and records
//      every multi-byte character (so that every character boundary satisfies LineMap::bnd),
//  (3) whose table is the one a naive reference computes from the text, and whose positions are the ones an LSP client computes
//      (line = number of LF before the offset, column = UTF-16 units since the last LF), at every character boundary.
#[cfg(test)]
mod verif_normalize {
    use super::*;

    fn lm_wf(m: &LineMap) -> bool {
        let ls = &m.line_starts;
        if ls.is_empty() || ls[0] != 0 { return false; }
        for i in 1..ls.len() { if !(ls[i - 1] < ls[i]) { return false; } }
        if ls[ls.len() - 1] > m.len { return false; }
        for l in 0..ls.len() {
            let end = if l + 1 >= ls.len() { m.len } else { ls[l + 1] - 1 };
            if end < ls[l] { return false; }
            let blen = end - ls[l];
            if let Some(ds) = m.char_diffs.get(&(l as u32)) {
                for k in 0..ds.len() {
                    let dv = ds[k].1 as u32;
                    if !(1 <= dv && dv <= 2) { return false; }
                    let next = if k + 1 < ds.len() { ds[k + 1].0 } else { blen };
                    if ds[k].0 + 1 + dv > next { return false; }
                }
            }
        }
        true
    }
    fn lm_mb(m: &LineMap, l: u32, off: u32) -> bool {
        if let Some(ds) = m.char_diffs.get(&l) {
            for &(p, d) in ds { if p < off && off < p + 1 + d as u32 { return false; } }
        }
        true
    }
    /// naive client: (line, UTF-16 column) of byte offset `off` (a character boundary) in `t`
    fn client_line_col(t: &str, off: usize) -> (u32, u32) {
        let (mut line, mut col) = (0u32, 0u32);
        for (i, c) in t.char_indices() {
            if i >= off { break; }
            if c == '\n' { line += 1; col = 0; } else { col += c.len_utf16() as u32; }
        }
        (line, col)
    }
    fn check_doc(doc: &str) {
        let (t, m) = LineMap::normalize(doc.to_owned());
        let want: String = doc.chars().filter(|&c| c != '\r').collect();
        assert_eq!(t, want, "VERIF-SYMPTOM stored text is not the text without CR: {doc:?}");
        assert!(lm_wf(&m), "VERIF-SYMPTOM LineMap::wf (the assumption of the Verus unit lmap) does not hold for the line map of {doc:?}: {m:?}");
        // reference table
        let mut starts = vec![0u32];
        for (i, b) in t.bytes().enumerate() { if b == b'\n' { starts.push(i as u32 + 1); } }
        assert_eq!(m.line_starts, starts, "VERIF-SYMPTOM line starts of {doc:?}");
        assert_eq!(m.len as usize, t.len(), "VERIF-SYMPTOM length of {doc:?}");
        let lines: Vec<&str> = t.split('\n').collect();
        assert_eq!(lines.len(), starts.len());
        for (l, line) in lines.iter().enumerate() {
            let exp: Vec<(u32, u32)> = line.char_indices().filter(|(_, c)| c.len_utf8() > 1).map(|(p, c)| (p as u32, (c.len_utf8() - c.len_utf16()) as u32)).collect();
            let got: Vec<(u32, u32)> = m.char_diffs.get(&(l as u32)).map(|v| v.iter().map(|&(p, d)| (p, d as u32)).collect()).unwrap_or_default();
            assert_eq!(got, exp, "VERIF-SYMPTOM recorded multi-byte characters of line {l} of {doc:?}");
            assert_eq!(m.end_col_for_line(l as u32), line.encode_utf16().count() as u32, "VERIF-SYMPTOM end column of line {l} of {doc:?}");
        }
        assert_eq!(m.last_line() as usize, lines.len() - 1, "VERIF-SYMPTOM last line of {doc:?}");
        let mut prev: Option<(u32, u32)> = None;
        for off in 0..=t.len() {
            if !t.is_char_boundary(off) { continue; }
            let (el, ec) = client_line_col(&t, off);
            assert!(lm_mb(&m, el, off as u32 - starts[el as usize]), "VERIF-SYMPTOM LineMap::bnd fails at a character boundary: {doc:?} offset {off}");
            let got = m.line_col_for_pos((off as u32).into());
            assert_eq!(got, (el, ec), "VERIF-SYMPTOM position of offset {off} in {doc:?} is not the one an LSP client computes");
            assert_eq!(u32::from(m.pos_for_line_col(got.0, got.1)) as usize, off, "VERIF-SYMPTOM round trip of offset {off} in {doc:?}");
            if let Some(p) = prev { assert!(p < got, "VERIF-SYMPTOM not strictly monotone at offset {off} in {doc:?}"); }
            prev = Some(got);
        }
    }
    fn enumerate(max_len: usize) -> usize {
        const ALPHA: [char; 6] = ['a', '\n', '\r', '\u{df}', '\u{211d}', '\u{1F4A3}'];
        let mut n = 0;
        let mut idx: Vec<usize> = Vec::new();
        loop {
            let doc: String = idx.iter().map(|&i| ALPHA[i]).collect();
            check_doc(&doc);
            n += 1;
            // next index vector (shorter first, then lexicographic)
            let mut k = idx.len();
            loop {
                if k == 0 { idx = vec![0; idx.len() + 1]; break; }
                k -= 1;
                if idx[k] + 1 < ALPHA.len() { idx[k] += 1; for j in k + 1..idx.len() { idx[j] = 0; } break; }
            }
            if idx.len() > max_len { return n; }
        }
    }
    #[test]
    fn exhaustive() {
        let l: usize = std::env::var("VERIF_NORMALIZE_L").ok().and_then(|s| s.parse().ok()).unwrap_or(6);
        let n = enumerate(l);
        println!("VERIF-COUNT {n}");
    }
}
