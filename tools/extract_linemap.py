"""Extractor for the LineMap / Vfs / convert / semantic-token unit (Kani).

Function and type texts are copied VERBATIM from /repo's working tree; the only things this
module adds are the stand-ins below (dependency / glue abstractions, none of them glas logic),
each listed in the evidence.  The only line dropped from an extracted body is the
`log::trace!(..)` statement of Vfs::change_file_content.
"""
import os
import re
from rustcut import Source, AnchorLost, split_items

STANDINS = r'''
// ======================= stand-ins (dependency / glue abstractions; NOT glas code) =======================
#![allow(dead_code, unused_imports, unused_macros, unused_variables)]
use anyhow::{ensure, Context, Result};
use std::sync::Arc;
use std::{fmt, mem};
use text_size::{TextRange, TextSize};

/// stands in for rustc_hash::FxHashMap (hashbrown): "a hash map is a finite map".
#[derive(Debug, Clone, PartialEq, Eq)]
pub struct FxHashMap<K, V> { entries: Vec<(K, V)> }
impl<K, V> Default for FxHashMap<K, V> { fn default() -> Self { FxHashMap { entries: Vec::new() } } }
impl<K: PartialEq, V> FxHashMap<K, V> {
    pub fn insert(&mut self, k: K, v: V) -> Option<V> {
        for e in self.entries.iter_mut() { if e.0 == k { return Some(mem::replace(&mut e.1, v)); } }
        self.entries.push((k, v));
        None
    }
    pub fn get(&self, k: &K) -> Option<&V> {
        for e in self.entries.iter() { if e.0 == *k { return Some(&e.1); } }
        None
    }
    pub fn len(&self) -> usize { self.entries.len() }
}
/// stands in for slab::Slab: "a map from small integer keys to values; insert returns a fresh key; indexing an
/// occupied key yields its value and panics otherwise".  The real crate builds under Kani, but every access through
/// its Entry enum (or any enum wrapped around the Arc pair) costs CBMC minutes: one splice > 400 s with slab or with
/// Vec<Option<T>>, 18 s with a plain Vec (measured).  Removal is not modelled (no extracted function removes).
#[derive(Debug, Clone)]
pub struct Slab<T> { entries: Vec<T> }
impl<T> Slab<T> {
    pub fn new() -> Self { Slab { entries: Vec::new() } }
    pub fn insert(&mut self, v: T) -> usize { self.entries.push(v); self.entries.len() - 1 }
    pub fn len(&self) -> usize { self.entries.len() }
}
impl<T> std::ops::Index<usize> for Slab<T> {
    type Output = T;
    fn index(&self, k: usize) -> &T { &self.entries[k] }
}
impl<T> std::ops::IndexMut<usize> for Slab<T> {
    fn index_mut(&mut self, k: usize) -> &mut T { &mut self.entries[k] }
}
/// field-identical to lsp_types::{Position, Range, SemanticToken}
#[derive(Debug, Clone, Copy, PartialEq, Eq, PartialOrd, Ord)]
pub struct Position { pub line: u32, pub character: u32 }
impl Position { pub fn new(line: u32, character: u32) -> Self { Position { line, character } } }
#[derive(Debug, Clone, Copy, PartialEq, Eq)]
pub struct Range { pub start: Position, pub end: Position }
impl Range { pub fn new(start: Position, end: Position) -> Self { Range { start, end } } }
#[derive(Debug, Clone, Copy, PartialEq, Eq)]
pub struct SemanticToken { pub delta_line: u32, pub delta_start: u32, pub length: u32, pub token_type: u32, pub token_modifiers_bitset: u32 }
/// lsp_types::SemanticTokenType / SemanticTokenModifier: only the constants' identity matters here
/// (an integer id instead of the protocol string keeps comparisons out of memcmp)
#[derive(Debug, Clone, Copy, PartialEq, Eq)]
pub struct SemanticTokenType(pub u8);
impl SemanticTokenType {
    pub const NAMESPACE: SemanticTokenType = SemanticTokenType(0);
    pub const TYPE: SemanticTokenType = SemanticTokenType(1);
    pub const FUNCTION: SemanticTokenType = SemanticTokenType(2);
    pub const VARIABLE: SemanticTokenType = SemanticTokenType(3);
    pub const ENUM_MEMBER: SemanticTokenType = SemanticTokenType(4);
    pub const PARAMETER: SemanticTokenType = SemanticTokenType(5);
    pub const PROPERTY: SemanticTokenType = SemanticTokenType(6);
    pub const KEYWORD: SemanticTokenType = SemanticTokenType(7);
    pub const CLASS: SemanticTokenType = SemanticTokenType(8);
    pub const ENUM: SemanticTokenType = SemanticTokenType(9);
    pub const STRUCT: SemanticTokenType = SemanticTokenType(10);
}
#[derive(Debug, Clone, Copy, PartialEq, Eq)]
pub struct SemanticTokenModifier(pub u8);
/// ide::FileId
#[derive(Debug, Clone, Copy, PartialEq, Eq, Hash)]
pub struct FileId(pub u32);
/// ide::Change: change_file becomes a recording push
#[derive(Debug, Default)]
pub struct Change { pub calls: Vec<(FileId, Arc<str>)> }
impl Change { pub fn change_file(&mut self, file: FileId, text: Arc<str>) { self.calls.push((file, text)); } }
/// glas::vfs::Vfs reduced to the two fields change_file_content touches
pub struct Vfs { files: Slab<(Arc<str>, Arc<LineMap>)>, change: Change }
// ======================= end of stand-ins =======================
'''


def cut_fn(src, owner_range, name, depth):
    lo, hi = owner_range
    pat = r'^[ \t]*(?:#\[[^\]]*\]\s*)*(?:pub(?:\([a-z]+\))?\s+)?fn\s+%s\b' % re.escape(name)
    s, o, c = src.cut_braced(pat, depth, lo, hi)
    s0 = src.attrs_start(s)
    return src.text[s0:c + 1], src.line_of(s)


def fn_names_in(src, lo, hi, depth):
    """names of all fn items at brace depth `depth` inside [lo, hi)"""
    names = []
    pos = lo
    rx = r'^[ \t]*(?:pub(?:\([a-z]+\))?\s+)?(?:const\s+)?fn\s+([A-Za-z_][A-Za-z0-9_]*)'
    while True:
        mm = src.find_header(rx, depth, pos, hi)
        if not mm:
            return names
        names.append(mm.group(1))
        pos = mm.end()


def closure(roots, available, body_of, method_of=None):
    """roots plus every available function that an included body calls: free functions as `name(` (not as a
    method or path segment), methods as `self.name(` / `Self::name(` / `<Type>::name(`"""
    want = list(roots)
    i = 0
    while i < len(want):
        body = body_of(want[i])
        for nm in available:
            if nm in want:
                continue
            if method_of:
                rx = r'(?:self\s*\.\s*|Self::|%s::)%s\s*\(' % (re.escape(method_of), re.escape(nm))
            else:
                rx = r'(?<![A-Za-z0-9_.:])%s\s*\(' % re.escape(nm)
            if re.search(rx, body):
                want.append(nm)
        i += 1
    return want


VFS_EXCLUDE = (r'^use\b', r'^(pub\s+)?struct\s+Vfs\b', r'^impl\s+fmt::Debug\s+for\s+Vfs\b', r'^impl\s+Vfs\b',
               r'^(#\[cfg\(test\)\]\s*)?mod\s+tests\b', r'^impl\s+Default\s+for\s+Vfs\b')
VFS_ROOTS = ('change_file_content', 'content_for_file', 'line_map_for_file')
CONVERT_ROOTS = ('from_pos', 'from_range', 'to_range', 'to_semantic_tokens')


def extract(repo):
    g = os.path.join(repo, 'crates/glas/src')
    vfs = Source(os.path.join(g, 'vfs.rs'))
    conv = Source(os.path.join(g, 'convert.rs'))
    sem = Source(os.path.join(g, 'semantic_tokens.rs'))
    hl = Source(os.path.join(repo, 'crates/ide/src/ide/semantic_highlighting.rs'))
    parts = []     # (text or None, repo path, line, name)
    dropped = []

    # semantic_tokens.rs: everything except its `use` lines, inside `mod semantic_tokens`
    body = re.sub(r'^use [^;]*;\n', '', sem.text, flags=re.M)
    parts.append(('pub mod semantic_tokens {\nuse super::*;\n' + body + '\n}\n', 'crates/glas/src/semantic_tokens.rs', 1, 'semantic_tokens.rs (whole file minus use lines)'))

    # HlRange / HlTag
    for nm, pat in (('HlRange', r'^pub struct HlRange\b'), ('HlTag', r'^pub enum HlTag\b')):
        s, o, c = hl.cut_braced(pat, 0)
        s0 = hl.attrs_start(s)
        parts.append((hl.text[s0:c + 1] + '\n', 'crates/ide/src/ide/semantic_highlighting.rs', hl.line_of(s), nm))

    # vfs.rs: EVERY top-level item except the Vfs struct / its impls, the `use` lines and the test module -
    # i.e. LineMap, CodeUnitsDiff, their impls and whatever helper items live next to them
    seen = set()
    for a, b, header in split_items(vfs):
        h = ' '.join(re.sub(r'#\[[^\]]*\]', ' ', header).split())
        if any(re.search(p, h) or re.search(p, ' '.join(header.split())) for p in VFS_EXCLUDE):
            continue
        chunk = vfs.text[a:b].strip('\n')
        line = vfs.line_of(a + (len(vfs.text[a:b]) - len(vfs.text[a:b].lstrip())))
        parts.append((chunk + '\n', 'crates/glas/src/vfs.rs', line, h[:60]))
        seen.add(h)
    for must in ('struct LineMap', 'enum CodeUnitsDiff', 'impl LineMap'):
        if not any(must in h for h in seen):
            raise AnchorLost('vfs.rs: item `%s` not found' % must)

    # Vfs methods: the three under check plus every other method of `impl Vfs` they call
    s, o, c = vfs.cut_braced(r'^impl Vfs\b', 0)
    avail = fn_names_in(vfs, o + 1, c, 1)
    for r in VFS_ROOTS:
        if r not in avail:
            raise AnchorLost('vfs.rs: Vfs::%s not found' % r)
    texts = {}

    def vfs_body(nm):
        if nm not in texts:
            texts[nm] = cut_fn(vfs, (o + 1, c), nm, 1)
        return texts[nm][0]
    methods = []
    for nm in closure(VFS_ROOTS, avail, vfs_body, 'Vfs'):
        t, line = texts[nm] if nm in texts else cut_fn(vfs, (o + 1, c), nm, 1)
        if nm == 'change_file_content':
            t2 = re.sub(r'^[ \t]*log::trace!\([^;]*\);\n', '', t, flags=re.M)
            if t2 != t:
                dropped.append('the line `log::trace!(..)` in Vfs::change_file_content')
            t = t2
        methods.append(t)
        parts.append((None, 'crates/glas/src/vfs.rs', line, 'Vfs::' + nm))
    parts.append(('impl Vfs {\n' + '\n\n'.join(methods) + '\n}\n', 'crates/glas/src/vfs.rs', vfs.line_of(s), 'impl Vfs (methods under check)'))

    # convert.rs: the four functions plus every other free function of the file they call
    avail = fn_names_in(conv, 0, len(conv.text), 0)
    for r in CONVERT_ROOTS:
        if r not in avail:
            raise AnchorLost('convert.rs: %s not found' % r)
    ctexts = {}

    def conv_body(nm):
        if nm not in ctexts:
            ctexts[nm] = cut_fn(conv, (0, len(conv.text)), nm, 0)
        return ctexts[nm][0]
    for nm in closure(CONVERT_ROOTS, avail, conv_body):
        t, line = ctexts[nm] if nm in ctexts else cut_fn(conv, (0, len(conv.text)), nm, 0)
        parts.append((t + '\n', 'crates/glas/src/convert.rs', line, 'convert::' + nm))

    text = STANDINS + '\n// ======================= extracted verbatim from the working tree =======================\n'
    under = []
    for t, path, line, nm in parts:
        if t is not None:
            text += '// ---- %s  (%s:%d)\n%s\n' % (nm, path, line, t)
        if not nm.startswith('impl Vfs') and not nm.startswith('semantic_tokens.rs'):
            under.append('%s (%s:%d)' % (nm, path, line))
    return {'text': text, 'functions': under, 'dropped': dropped,
            'standins': ['FxHashMap -> association list (assumed contract: a hash map is a finite map)',
                         'Vfs reduced to {files: Slab<(Arc<str>, Arc<LineMap>)>, change}; ide::Change::change_file -> recording push',
                         'slab::Slab -> Vec<T> with insert / Index / IndexMut (assumed contract: a map from small integer keys to values)',
                         'lsp_types Position / Range / SemanticToken / SemanticTokenType -> field-identical plain structs',
                         'ide::FileId -> tuple struct']}


# ---------------------------------------------------------------------------------------------------------------
# "session" variant (C15, clause "several changes where an earlier one is rejected"): Server::on_did_change with the
# real Vfs::{change_file_content, remove_uri, file_for_uri, file_for_path, ..}.  Differences to the variant above, all
# in stand-ins: Slab keeps vacated slots (remove / "invalid key" panic like the real crate), Vfs has its third field
# `local_file_set`, and the glue types of server.rs that the notification handler touches are reduced to what it uses.
SESSION_STANDINS = r'''
// ======================= additional stand-ins of the session variant (NOT glas code) =======================
use std::ops::ControlFlow;
/// std::sync::RwLock in a single-threaded harness: a RefCell (the futex paths of the real lock cost CBMC minutes)
pub struct RwLock<T>(std::cell::RefCell<T>);
impl<T> RwLock<T> {
    pub fn new(v: T) -> Self { RwLock(std::cell::RefCell::new(v)) }
    pub fn write(&self) -> core::result::Result<std::cell::RefMut<'_, T>, ()> { Ok(self.0.borrow_mut()) }
    pub fn read(&self) -> core::result::Result<std::cell::Ref<'_, T>, ()> { Ok(self.0.borrow()) }
}
/// lsp_types::Url: an opaque identifier
#[derive(Debug, Clone, PartialEq, Eq)]
pub struct Url(pub u32);
/// ide::VfsPath
#[derive(Debug, Clone, PartialEq, Eq)]
pub struct VfsPath(pub u32);
/// crate::UrlExt::to_vfs_path
impl Url { pub fn to_vfs_path(&self) -> VfsPath { VfsPath(self.0) } }
/// ide::FileSet: the two maps, as association lists
#[derive(Debug, Default)]
pub struct FileSet { files: Vec<(VfsPath, FileId)> }
impl FileSet {
    pub fn insert(&mut self, file: FileId, path: VfsPath) { self.files.push((path, file)); }
    pub fn remove_file(&mut self, file: FileId) { self.files.retain(|e| e.1 != file); }
    pub fn file_for_path(&self, path: &VfsPath) -> Option<FileId> {
        for e in self.files.iter() { if e.0 == *path { return Some(e.1); } }
        None
    }
}
/// lsp_types::{DidChangeTextDocumentParams, VersionedTextDocumentIdentifier, TextDocumentContentChangeEvent}
#[derive(Debug)]
pub struct VersionedTextDocumentIdentifier { pub uri: Url, pub version: i32 }
#[derive(Debug)]
pub struct TextDocumentContentChangeEvent { pub range: Option<Range>, pub range_length: Option<u32>, pub text: String }
#[derive(Debug)]
pub struct DidChangeTextDocumentParams { pub text_document: VersionedTextDocumentIdentifier, pub content_changes: Vec<TextDocumentContentChangeEvent> }
pub type NotifyResult = ControlFlow<Result<()>>;
/// server.rs FileData
pub struct FileData { pub diagnostics_task: Option<u32> }
/// glas::server::Server reduced to the fields on_did_change touches; the two follow-up calls are recorded
pub struct Server { vfs: Arc<RwLock<Vfs>>, opened_files: FxHashMap<Url, FileData>, applied: u32, diagnostics_for: Vec<Url> }
impl Server {
    fn apply_vfs_change(&mut self) { self.applied += 1; }
    fn spawn_update_diagnostics(&mut self, uri: Url) { self.diagnostics_for.push(uri); }
}
impl<K: PartialEq, V> FxHashMap<K, V> {
    pub fn remove(&mut self, k: &K) -> Option<V> {
        let mut i = 0;
        while i < self.entries.len() { if self.entries[i].0 == *k { return Some(self.entries.remove(i).1); } i += 1; }
        None
    }
}
// ======================= end of the additional stand-ins =======================
'''

ANYHOW_STANDIN = r'''/// stands in for anyhow (session variant only): an error is a unit value; ensure! / with_context keep their control flow
#[derive(Debug)]
pub struct Error;
pub type Result<T, E = Error> = core::result::Result<T, E>;
macro_rules! ensure { ($c:expr, $($t:tt)*) => { if !($c) { return Err(Error); } }; ($c:expr) => { if !($c) { return Err(Error); } }; }
pub trait Context<T> { fn with_context<C, F: FnOnce() -> C>(self, f: F) -> Result<T>; }
impl<T> Context<T> for Option<T> { fn with_context<C, F: FnOnce() -> C>(self, _f: F) -> Result<T> { match self { Some(v) => Ok(v), None => Err(Error) } } }
impl<T, E> Context<T> for core::result::Result<T, E> { fn with_context<C, F: FnOnce() -> C>(self, _f: F) -> Result<T> { match self { Ok(v) => Ok(v), Err(_) => Err(Error) } } }
'''

SESSION_SLAB = r'''/// stands in for slab::Slab (session variant): vacated slots stay vacated; indexing one panics like the real crate.
/// Vacancy is a parallel flag vector, not an Option around the value: any enum wrapped around the (Arc<str>, Arc<LineMap>)
/// pair costs CBMC minutes per access (measured).  `remove` returns nothing (the one call site discards the value).
#[derive(Debug, Clone)]
pub struct Slab<T> { entries: Vec<T>, vacant: Vec<bool> }
impl<T> Slab<T> {
    pub fn len(&self) -> usize { self.entries.len() }
    pub fn remove(&mut self, k: usize) { if k >= self.vacant.len() || self.vacant[k] { panic!("invalid key") } self.vacant[k] = true; }
}
impl<T> std::ops::Index<usize> for Slab<T> {
    type Output = T;
    fn index(&self, k: usize) -> &T { if k >= self.vacant.len() || self.vacant[k] { panic!("invalid key") } &self.entries[k] }
}
impl<T> std::ops::IndexMut<usize> for Slab<T> {
    fn index_mut(&mut self, k: usize) -> &mut T { if k >= self.vacant.len() || self.vacant[k] { panic!("invalid key") } &mut self.entries[k] }
}
'''


def extract_session(repo):
    """crate text of the session variant: everything of extract() plus Vfs::{remove_uri, file_for_uri, file_for_path} and
    Server::on_did_change, verbatim; dropped: the `tracing::error!(..)` statement of on_did_change; rewritten: the module
    path in `convert::from_range` (single-module file)."""
    global VFS_ROOTS
    old_roots = VFS_ROOTS
    VFS_ROOTS = old_roots + ('remove_uri', 'file_for_uri', 'file_for_path')
    try:
        ex = extract(repo)
    finally:
        VFS_ROOTS = old_roots
    text = ex['text']
    # swap the Slab stand-in and the Vfs struct
    a = text.index('/// stands in for slab::Slab:')
    b = text.index('/// field-identical to lsp_types::{Position, Range, SemanticToken}')
    text = text[:a] + SESSION_SLAB + text[b:]
    text = text.replace('pub struct Vfs { files: Slab<(Arc<str>, Arc<LineMap>)>, change: Change }',
                        'pub struct Vfs { files: Slab<(Arc<str>, Arc<LineMap>)>, local_file_set: FileSet, change: Change }')
    text = text.replace('impl Change { pub fn change_file(&mut self, file: FileId, text: Arc<str>) { self.calls.push((file, text)); } }',
                        'impl Change { pub fn change_file(&mut self, file: FileId, text: Arc<str>) { self.calls.push((file, text)); }\n    pub fn set_structural_change(&mut self) { self.is_structural_change = true; } }')
    text = text.replace('pub struct Change { pub calls: Vec<(FileId, Arc<str>)> }', 'pub struct Change { pub calls: Vec<(FileId, Arc<str>)>, pub is_structural_change: bool }')
    text = text.replace('// ======================= end of stand-ins =======================', '// ======================= end of stand-ins =======================\n' + SESSION_STANDINS, 1)
    # anyhow -> a unit error type with the same control flow (dropping a real anyhow::Error makes CBMC walk its vtable
    # recursion for > 15 min, and Server::on_did_change drops errors itself through `.ok()?`)
    if 'use anyhow::{ensure, Context, Result};' not in text:
        raise AnchorLost('stand-in header changed')
    text = text.replace('use anyhow::{ensure, Context, Result};', ANYHOW_STANDIN, 1)
    srv = Source(os.path.join(repo, 'crates/glas/src/server.rs'))
    s, o, c = srv.cut_braced(r'^impl Server\b', 0)
    t, line = cut_fn(srv, (o + 1, c), 'on_did_change', 1)
    # drop the tracing statement(s): `tracing::error!( .. );`
    dropped = list(ex['dropped'])
    while True:
        mm = re.search(r'^[ \t]*tracing::\w+!\s*\(', t, re.M)
        if not mm:
            break
        from rustcut import code_mask, match_brace
        po = t.index('(', mm.start())
        pc = match_brace(t, code_mask(t), po, '(', ')')
        end = t.index(';', pc) + 1
        if end < len(t) and t[end] == '\n':
            end += 1
        t = t[:mm.start()] + t[end:]
        dropped.append('a `tracing::..!(..)` statement in Server::on_did_change')
    t, n = re.subn(r'\bconvert::(from_range)\b', r'\1', t)
    text += '// ---- Server::on_did_change  (crates/glas/src/server.rs:%d)\nimpl Server {\n%s\n}\n' % (line, t)
    ex2 = dict(ex)
    ex2['text'] = text
    ex2['functions'] = ex['functions'] + ['Server::on_did_change (crates/glas/src/server.rs:%d)' % line]
    ex2['dropped'] = dropped + ['module path in `convert::from_range` (%d)' % n]
    ex2['standins'] = ex['standins'] + ['session variant: slab::Slab -> Vec<T> + vacancy flags with remove / "invalid key" panic; lsp_types::Url and ide::VfsPath -> opaque ids; ide::FileSet -> association list; '
                                       'std::sync::RwLock -> RefCell; anyhow -> unit error type (ensure!/with_context keep their control flow); Server reduced to {vfs, opened_files} with apply_vfs_change / spawn_update_diagnostics recorded; DidChangeTextDocumentParams etc. field-identical structs; std::collections::HashMap -> association list']
    return ex2


CARGO_TOML = '''[package]
name = "verif_linemap"
version = "0.0.0"
edition = "2021"

[dependencies]
anyhow = "=%(anyhow)s"
text-size = "=%(text_size)s"

[workspace]
'''


def lock_version(lock, name):
    mm = re.search(r'name = "%s"\nversion = "([^"]+)"' % re.escape(name), lock)
    if not mm:
        raise AnchorLost('Cargo.lock has no package %s' % name)
    return mm.group(1)


def write_crate(repo, dest, harness_text, session=False):
    ex = extract_session(repo) if session else extract(repo)
    os.makedirs(os.path.join(dest, 'src'), exist_ok=True)
    lock = open(os.path.join(repo, 'Cargo.lock')).read()
    open(os.path.join(dest, 'Cargo.toml'), 'w').write(CARGO_TOML % {
        'anyhow': lock_version(lock, 'anyhow'), 'text_size': lock_version(lock, 'text-size')})
    main = ex['text'] + '\n#[cfg(kani)]\n#[allow(unused, non_snake_case)]\nmod verif_kani {\nuse super::*;\n' + harness_text + '\n}\nfn main() {}\n'
    open(os.path.join(dest, 'src/main.rs'), 'w').write(main)
    return ex


if __name__ == '__main__':
    import sys
    print(extract(sys.argv[1] if len(sys.argv) > 1 else '/repo')['text'])
