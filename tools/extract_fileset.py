"""Extractor for the file-set unit (Verus, C13 / C15): `struct FileSet` and FileSet::{insert, remove_file, file_for_path}, cut verbatim
from crates/ide/src/base.rs (R5: visibility qualifiers dropped; the derive list of the struct is dropped; `path_for_file`, `iter` and
the Debug impl are not taken).  `VfsPath` (opaque, Clone/Eq/Hash) and `FileId` are stand-ins; std::collections::HashMap is vstd's
specification of the standard library's hash map.  The contracts proved here are the ones contracts/vfs_prelude.rs assumes."""
import os
import re
from rustcut import Source, AnchorLost
from extract_parser import Item, split_fn, strip_lead, fns_in, drop_vis

FNS = ('insert', 'remove_file', 'file_for_path')


def extract(repo):
    path = 'crates/ide/src/base.rs'
    src = Source(os.path.join(repo, path))
    s, o, c = src.cut_braced(r'^pub struct FileSet\b', 0)
    fields = drop_vis(src.text[o:c + 1])
    if not re.search(r'\bfiles\s*:\s*HashMap\s*<\s*VfsPath\s*,\s*FileId\s*>', fields) or not re.search(r'\bpaths\s*:\s*HashMap\s*<\s*FileId\s*,\s*VfsPath\s*>', fields):
        raise AnchorLost('struct FileSet is no longer the pair of maps files: HashMap<VfsPath, FileId>, paths: HashMap<FileId, VfsPath>')
    items = [Item('type', 'FileSet', 'struct FileSet ' + fields, path, src.line_of(s))]
    s, o, c = src.cut_braced(r'^impl FileSet\b', 0)
    seen = set()
    for nm, fs, fo, fc in fns_in(src, 1, o + 1, c):
        if nm in FNS:
            seen.add(nm)
            h, b = split_fn(src, fs, fo, fc)
            h = re.sub(r'^\s*pub(\([a-z]+\))?\s+', '', strip_lead(h))
            items.append(Item('fn', 'FileSet::' + nm, None, path, src.line_of(fs), header=h, body=b, owner='FileSet'))
    for f in FNS:
        if f not in seen:
            raise AnchorLost('base.rs: no FileSet::%s' % f)
    return {'items': items, 'notes': ['struct FileSet and %d methods verbatim (R5 only)' % len(FNS)]}


def assumed_contracts():
    """the ensures clauses that contracts/vfs_prelude.rs ASSUMES for its FileSet stand-in, textually: they replace the ensures of
    contracts/fileset.spec, so that what this unit proves is exactly what the Vfs unit assumes"""
    verif = os.path.dirname(os.path.dirname(os.path.abspath(__file__)))
    text = open(os.path.join(verif, 'contracts/vfs_prelude.rs')).read()
    i = text.find('impl FileSet {')
    if i < 0:
        raise AnchorLost('contracts/vfs_prelude.rs: no FileSet stand-in')
    block = text[i:text.find('\n}\n', i)]
    res = {}
    for mm in re.finditer(r'pub fn (\w+)\([^)]*\)(?: -> \(r: [^)]*\))?\s+ensures (.*?)\s*\{ unimplemented!\(\) \}', block, re.S):
        res['FileSet::' + mm.group(1)] = ' '.join(mm.group(2).split())
    return res


def assemble(ex, prelude, fns_spec, loops_spec):
    import weave
    assumed = assumed_contracts()
    fns_spec = {k: dict(v) for k, v in fns_spec.items()}
    for k in fns_spec:
        if k not in assumed:
            raise AnchorLost('contracts/vfs_prelude.rs assumes no contract for %s' % k)
        fns_spec[k]['ensures'] = assumed[k]
    used_fn, used_loop, defaulted = set(), set(), []
    head = 'use vstd::prelude::*;\nuse std::collections::HashMap;\nverus! {\n' + prelude + '\n' + ex['items'][0].text + '\n'
    text, linemap = head, []
    line = head.count('\n') + 1
    linemap.append((line - ex['items'][0].text.count('\n') - 1, line - 1, ex['items'][0].path, ex['items'][0].line, 'FileSet'))
    text += 'impl FileSet {\n' + SPEC_VIEWS
    line += 1 + SPEC_VIEWS.count('\n')
    for it in ex['items'][1:]:
        body = weave.emit_fn(it, fns_spec, loops_spec, used_fn, used_loop, defaulted)
        n = body.count('\n')
        linemap.append((line, line + n - 1, it.path, it.line, it.name))
        text += body
        line += n
    text += '}\n} // verus!\nfn main() {}\n'
    for nm in fns_spec:
        if nm not in used_fn:
            raise AnchorLost('@fn %s: no such function in the working tree' % nm)
    return text, linemap, {'contracted': sorted(used_fn), 'loops_contracted': [], 'bridged_contracts': ['vfs:' + k for k in sorted(assumed)]}


# the abstract view the Vfs unit's stand-in uses: the two maps
SPEC_VIEWS = '''    spec fn files(&self) -> Map<VfsPath, FileId> { self.files@ }
    spec fn paths(&self) -> Map<FileId, VfsPath> { self.paths@ }
'''
