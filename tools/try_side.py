#!/usr/bin/env python3
"""Development aid: apply a patch to a SCRATCH copy of crates/, build one side unit (semtok | conv) from it, run Verus.
usage: try_side.py UNIT PATCH.diff"""
import os, shutil, subprocess, sys, tempfile, json
sys.path.insert(0, os.path.dirname(os.path.abspath(__file__)))
import side_unit
unit, patch = sys.argv[1:3]
d = tempfile.mkdtemp(prefix='tryside.', dir='/var/tmp')
try:
    for sub in side_unit.COPY_DIRS:
        if os.path.isdir(os.path.join('/repo', sub)):
            shutil.copytree(os.path.join('/repo', sub), os.path.join(d, sub), dirs_exist_ok=True)
        else:
            os.makedirs(os.path.dirname(os.path.join(d, sub)), exist_ok=True)
            shutil.copy(os.path.join('/repo', sub), os.path.join(d, sub))
    r = subprocess.run(['patch', '-p1', '-s', '-f', '-d', d, '-i', os.path.abspath(patch)], capture_output=True, text=True)
    if r.returncode != 0:
        print('patch did not apply cleanly to the copied dirs:', r.stdout[-300:], r.stderr[-300:])
    res = side_unit.run(unit, d, 'try')
    print(res['status'], res.get('why', ''), res.get('verified'), res.get('errors'))
    for f in res.get('failures', []):
        print('  ', f['id'][:260])
finally:
    shutil.rmtree(d, ignore_errors=True)
