"""Harness generator for the build_tree Kani unit: one #[kani::proof] per (event shape, N)."""
SHAPES = {
    # name: (list of events, number of Advance)
    'empty_file': (['O:SOURCE_FILE', 'C'], 0),
    'fn_1': (['O:SOURCE_FILE', 'O:FUNCTION', 'A', 'C', 'C'], 1),
    'generic_1': (['O:SOURCE_FILE', 'O:NAME', 'A', 'C', 'C'], 1),
    'fn_name_2': (['O:SOURCE_FILE', 'O:FUNCTION', 'A', 'O:NAME', 'A', 'C', 'C', 'C'], 2),
    'error_then_fn_2': (['O:SOURCE_FILE', 'O:ERROR', 'A', 'C', 'O:FUNCTION', 'A', 'C', 'C'], 2),
    'adt_variant_2': (['O:SOURCE_FILE', 'O:ADT', 'O:VARIANT', 'A', 'C', 'A', 'C', 'C'], 2),
    'const_nested_2': (['O:SOURCE_FILE', 'O:MODULE_CONSTANT', 'A', 'O:LITERAL', 'A', 'C', 'C', 'C'], 2),
    'wrapped_3': (['O:SOURCE_FILE', 'O:FUNCTION', 'A', 'O:BLOCK', 'A', 'O:NAME', 'A', 'C', 'C', 'C', 'C'], 3),
}


def event(e):
    if e == 'A':
        return 'Event::Advance'
    if e == 'C':
        return 'Event::Close'
    return 'Event::Open { kind: SyntaxKind::%s }' % e[2:]


def harness(shape, n):
    evs, adv = SHAPES[shape]
    src = 'abcdefgh'[:n]
    toks = ', '.join('raw_token(SRC, %d, &mut non_trivia)' % i for i in range(n))
    return '''
#[kani::proof]
#[kani::stub(rowan::GreenNodeBuilder::start_node, stub_start_node)]
#[kani::stub(rowan::GreenNodeBuilder::token, stub_token)]
#[kani::stub(rowan::GreenNodeBuilder::finish_node, stub_finish_node)]
#[kani::stub(rowan::GreenNodeBuilder::finish, stub_finish)]
#[kani::unwind(%(unw)d)]
fn build_tree_%(shape)s_n%(n)d() {
    const SRC: &str = "%(src)s";
    let mut non_trivia = 0usize;
    let tokens_raw: Vec<LexToken<'static>> = vec![%(toks)s];
    kani::assume(non_trivia == %(adv)d); // one Advance per non-trivia token (proved for `module` by the Verus unit)
    unsafe { NRAW = %(n)d; SRC_ADDR = SRC.as_ptr() as usize; }
    let events = vec![%(events)s];
    let p = Parser { tokens: Vec::new(), tokens_raw, pos: 0, depth: 0, src: SRC, fuel: Cell::new(1024), errors: Vec::new(), events };
    let _ = p.build_tree();
}
''' % {'shape': shape, 'n': n, 'src': src, 'toks': toks, 'adv': adv, 'events': ', '.join(event(e) for e in evs), 'unw': max(n, len(evs)) + 3}


def generate(template, pairs):
    body = ''.join(harness(s, n) for s, n in pairs)
    return template.replace('@HARNESSES@', body), ['parser::verif_kani::build_tree_%s_n%d' % (s, n) for s, n in pairs]
