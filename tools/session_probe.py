"""Bounded native probe for C15 on the real `glas` crate: Server::on_did_open / on_did_change over whole notifications
(several changes, an earlier one rejected).  server.rs cannot be brought under either verifier (tokio, async-lsp; crate
`glas` does not build under Kani; a Kani harness over the extracted on_did_change with stand-ins did not finish in 20
minutes per scenario - DESIGN.md 0.11), so a scratch copy of the workspace is built with `cargo test --offline` and the
test module tools/session_probe/verif_session.rs appended to the copy of server.rs is run.  Labelled bounded; never
counted as proved."""
import os
import re
import shutil

from common import VERIF, REPO, scratch, run, Undecided


def run_probe(repo=REPO):
    """-> dict(status='passed'|'failed'|'undecided', scenarios={name: 'ok'|'FAILED'}, symptoms={name: text}, ...)"""
    d = os.path.join(scratch(), 'session_native')
    shutil.rmtree(d, ignore_errors=True)
    shutil.copytree(repo, d, ignore=shutil.ignore_patterns('target', '.git', 'editor'))
    srv = os.path.join(d, 'crates/glas/src/server.rs')
    if not os.path.exists(srv):
        return {'status': 'undecided', 'why': 'crates/glas/src/server.rs not found'}
    open(srv, 'a').write(open(os.path.join(VERIF, 'tools/session_probe/verif_session.rs')).read())
    cmd = ['cargo', 'test', '-p', 'glas', '--offline', '--lib', 'verif_session', '--', '--test-threads', '4']
    rc, out, err, wall = run(cmd, cwd=d, timeout=1500, env={'CARGO_TARGET_DIR': os.path.join(d, 'target'), 'RUST_BACKTRACE': '0'})
    text = out + '\n' + err
    res = dict(re.findall(r'^test server::verif_session::(\w+) \.\.\. (ok|FAILED)', text, re.M))
    if rc is None or not res:
        return {'status': 'undecided', 'why': 'the scratch copy of crate glas did not build / run with the probe appended: %s' % text[-600:], 'wall_s': wall}
    symptoms = {}
    for name in res:
        if res[name] == 'FAILED':
            mm = re.search(r"thread 'server::verif_session::%s'[^\n]*panicked at ([^\n]*)\n([^\n]*)" % name, text)
            sm = re.search(r'VERIF-SYMPTOM ([^\n"]*)', text[text.find("verif_session::%s'" % name):] if ("verif_session::%s'" % name) in text else '')
            symptoms[name] = ((mm.group(1) + ' ' + mm.group(2)) if mm else '') + ((' | ' + sm.group(1)) if sm else '')
    shutil.rmtree(os.path.join(d, 'target'), ignore_errors=True)
    return {'status': 'failed' if symptoms else 'passed', 'scenarios': res, 'symptoms': symptoms, 'wall_s': round(wall, 1), 'cmd': ' '.join(cmd)}


if __name__ == '__main__':
    import json
    import sys
    print(json.dumps(run_probe(sys.argv[1] if len(sys.argv) > 1 else REPO), indent=1))
