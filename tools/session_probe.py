"""Bounded native probe for C15 on the real `glas` crate: Server::on_did_open / on_did_change over whole notifications
(several changes, an earlier one rejected).  server.rs cannot be brought under either verifier (tokio, async-lsp; crate
`glas` does not build under Kani; a Kani harness over the extracted on_did_change with stand-ins did not finish in 20
minutes per scenario - DESIGN.md 0.11), so a scratch copy of the workspace is built with `cargo test --offline` and the
test module tools/session_probe/verif_session.rs appended to the copy of server.rs is run.  Labelled bounded; never
counted as proved."""
import os
import re
import shutil

from common import VERIF, REPO, scratch, run, Undecided


def gen_histories(n_hist, seed):
    """Deterministic edit histories for the C13 history clause: an opened document, then notifications with 1-3 incremental
    changes each (valid client ranges on the client's CR-free text; inserted texts may carry CRLF / lone CR / multi-byte
    characters / nothing), or a full-text replacement.  Expected final text = the LSP reference client's (tools/lsp_reference.py)."""
    import random
    import lsp_reference as ref
    rnd = random.Random(seed)
    alpha = ['a', 'b', '\n', '\u00df', '\u211d', '\U0001F4A3', ' ']
    inserts = ['', 'x', '\n', '\r\n', 'q\r\nr', '\u00df', '\U0001F4A3', 'fn f() {}\n', '\r', 'ab\ncd']
    out = []
    for h in range(n_hist):
        doc = ''.join(rnd.choice(alpha) for _ in range(rnd.randint(0, 8)))
        text = doc
        notifs = []
        last_line = None
        for _ in range(rnd.randint(1, 4)):
            changes = []
            for _ in range(rnd.randint(1, 3)):
                ins = rnd.choice(inserts)
                if rnd.random() < 0.15:
                    changes.append((None, ins))
                    text = ref.strip_cr(ins)
                    last_line = None
                    continue
                vp = ref.valid_positions(text)
                a, b = sorted((rnd.randrange(len(vp)), rnd.randrange(len(vp))))
                # half of the follow-up edits stay on the line of the previous edit, at or right of it (an edit that leaves a
                # stale or shifted line table behind only shows in a later edit of the same line)
                if last_line is not None and rnd.random() < 0.5:
                    same = [i for i, p in enumerate(vp) if p[0] == last_line]
                    if same:
                        a = rnd.choice(same)
                        b = rnd.choice([i for i in same if i >= a])
                (l1, c1, o1), (l2, c2, o2) = vp[a], vp[b]
                # a third of the non-empty deletions are replaced by ASCII of the same byte length (equal-width replacement of
                # multi-byte characters: "ß" -> "ss", "ℝ" -> "-->", "💣" -> "bomb")
                if o2 > o1 and l1 == l2 and rnd.random() < 0.34:
                    ins = 'sbom'[:1] * (o2 - o1) if (o2 - o1) > 4 else 'bomb'[:o2 - o1]
                last_line = l1
                changes.append(((l1, c1, l2, c2), ins))
                text = ref.strip_cr(ref.client_apply(text, o1, o2, ins))
            notifs.append(changes)
        out.append((doc, notifs, text))
    return out


def rs_str(s):
    out = '"'
    for c in s:
        if c == '\n':
            out += '\\n'
        elif c == '\r':
            out += '\\r'
        elif c == '"':
            out += '\\"'
        elif c == '\\':
            out += '\\\\'
        elif 0x20 <= ord(c) < 0x7f:
            out += c
        else:
            out += '\\u{%x}' % ord(c)
    return out + '"'


def history_tests(n_hist, seed):
    lines = ['', '    // ---- generated: C13 edit histories against the LSP reference client (tools/session_probe.py gen_histories) ----']
    for i, (doc, notifs, final) in enumerate(gen_histories(n_hist, seed)):
        ns = []
        for changes in notifs:
            cs = ', '.join('ch(%s, %s)' % ('None' if r is None else 'Some((%d, %d, %d, %d))' % r, rs_str(t)) for (r, t) in changes)
            ns.append('vec![%s]' % cs)
        lines.append('    #[tokio::test]\n    async fn history_%d() { history(%s, vec![%s], %s); }' % (i, rs_str(doc), ', '.join(ns), rs_str(final)))
    return '\n'.join(lines) + '\n'


def run_probe(repo=REPO, n_hist=40, seed=1):
    """-> dict(status='passed'|'failed'|'undecided', scenarios={name: 'ok'|'FAILED'}, symptoms={name: text}, ...)"""
    d = os.path.join(scratch(), 'session_native')
    shutil.rmtree(d, ignore_errors=True)
    shutil.copytree(repo, d, ignore=shutil.ignore_patterns('target', '.git', 'editor'))
    srv = os.path.join(d, 'crates/glas/src/server.rs')
    if not os.path.exists(srv):
        return {'status': 'undecided', 'why': 'crates/glas/src/server.rs not found'}
    mod = open(os.path.join(VERIF, 'tools/session_probe/verif_session.rs')).read()
    k = mod.rstrip().rfind('}')
    mod = mod[:k] + history_tests(n_hist, seed) + '}\n'
    open(srv, 'a').write(mod)
    cmd = ['cargo', 'test', '-p', 'glas', '--offline', '--lib', 'verif_session', '--', '--test-threads', '4']
    rc, out, err, wall = run(cmd, cwd=d, timeout=1500, env={'CARGO_TARGET_DIR': os.path.join(d, 'target'), 'RUST_BACKTRACE': '0'})
    text = out + '\n' + err
    res = dict(re.findall(r'^test server::verif_session::(\w+) \.\.\. (ok|FAILED)', text, re.M))
    if rc is None or not res:
        return {'status': 'undecided', 'why': 'the scratch copy of crate glas did not build / run with the probe appended: %s' % text[-600:], 'wall_s': wall}
    symptoms = {}
    for name in res:
        if res[name] == 'FAILED':
            mm = re.search(r"thread 'server::verif_session::%s'[^\n]*panicked at ([^\n]*)\n([^\n]*)" % name, text)
            sm = re.search(r'VERIF-SYMPTOM ([^\n"]*)', text[text.find("verif_session::%s'" % name):] if ("verif_session::%s'" % name) in text else '')
            symptoms[name] = ((mm.group(1) + ' ' + mm.group(2)) if mm else '') + ((' | ' + sm.group(1)) if sm else '')
    shutil.rmtree(os.path.join(d, 'target'), ignore_errors=True)
    return {'status': 'failed' if symptoms else 'passed', 'scenarios': res, 'symptoms': symptoms, 'wall_s': round(wall, 1), 'cmd': ' '.join(cmd)}


if __name__ == '__main__':
    import json
    import sys
    print(json.dumps(run_probe(sys.argv[1] if len(sys.argv) > 1 else REPO), indent=1))
