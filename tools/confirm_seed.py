#!/usr/bin/env python3
"""Confirm a sub-agent's seeded change in a scratch worktree and file it under /verif/seeded/.
usage: confirm_seed.py PROP OUTDIR INDEX NAME
 - demo passes on the unmodified tree, fails with the patch
 - the patched tree compiles and the full suite gives the baseline results"""
import json, os, re, shutil, subprocess, sys
prop, outdir, idx, name = sys.argv[1:5]
patch = os.path.join(outdir, 'patch%s.diff' % idx)
demo = os.path.join(outdir, 'demo%s.rs' % idx)
meta = os.path.join(outdir, 'meta%s.txt' % idx)
wt = '/tmp/confirm-%s-%s' % (prop, idx)
env = dict(os.environ, CARGO_TARGET_DIR='/tmp/confirm-target', CARGO_NET_OFFLINE='true')
BASE_FAIL = {'ty::tests::infer_annotated_lambda', 'ty::tests::infer_annotated_let', 'ty::tests::infer_labelled_pipe'}

def sh(cmd, cwd=wt, timeout=3000):
    r = subprocess.run(cmd, cwd=cwd, env=env, capture_output=True, text=True, timeout=timeout)
    return r.returncode, r.stdout + r.stderr

subprocess.run(['git', '-C', '/repo', 'worktree', 'remove', '--force', wt], capture_output=True)
subprocess.run(['git', '-C', '/repo', 'worktree', 'add', '-q', '--detach', wt, 'HEAD'], check=True)
log = {'property': prop, 'name': name, 'ran': []}
try:
    dtext = open(demo).read()
    head = dtext[:1500]
    if 'vfs.rs' in head and 'mod tests' in head:
        target, crate, mode = 'crates/glas/src/vfs.rs', 'glas', 'in_mod_tests'
    elif 'convert.rs' in head:
        target, crate, mode = 'crates/glas/src/convert.rs', 'glas', 'append'
    elif 'crates/ide/src/ide/diagnostics.rs' in head:
        target, crate, mode = 'crates/ide/src/ide/diagnostics.rs', 'ide', 'append'
    elif 'tests.rs' in head:
        target, crate, mode = 'crates/syntax/src/tests.rs', 'syntax', 'append'
    else:
        raise SystemExit('cannot tell where the demo goes: ' + head[:300])
    tests = re.findall(r'#\[test\]\s*(?:#\[[^\]]*\]\s*)*fn\s+(\w+)', dtext)
    def put_demo():
        p = os.path.join(wt, target)
        s = open(p).read()
        if mode == 'append':
            s = s + '\n' + dtext
        else:
            k = s.rstrip().rfind('}')
            s = s[:k] + '\n' + dtext + '\n}\n'
        open(p, 'w').write(s)
    def run_demo():
        res = {}
        for t in tests:
            rc, out = sh(['cargo', 'test', '-p', crate, '--offline', '-j', '6', '--lib', t])
            m = re.search(r'test result: (\w+)\. (\d+) passed; (\d+) failed', out)
            res[t] = 'pass' if (rc == 0 and m and int(m.group(2)) >= 1) else 'FAIL'
        return res
    # 1. demo on unmodified tree
    put_demo()
    r0 = run_demo()
    log['ran'].append({'what': 'demo on the unmodified tree', 'result': r0})
    sh(['git', 'checkout', '--', '.'])
    # 2. demo with the patch
    rc, out = sh(['git', 'apply', patch])
    assert rc == 0, out
    put_demo()
    r1 = run_demo()
    log['ran'].append({'what': 'demo with the patch', 'result': r1})
    sh(['git', 'checkout', '--', '.'])
    # 3. full suite with the patch only
    sh(['git', 'apply', patch])
    rc, out = sh(['cargo', 'test', '--workspace', '--no-fail-fast', '--offline', '-j', '6'])
    failed = set(re.findall(r'^test (\S+) \.\.\. FAILED', out, re.M))
    passed = len(re.findall(r'^test \S+ \.\.\. ok', out, re.M))
    log['ran'].append({'what': 'cargo test --workspace --no-fail-fast --offline with the patch', 'passed': passed, 'failed': sorted(failed)})
    ok = all(v == 'pass' for v in r0.values()) and any(v == 'FAIL' for v in r1.values()) and failed == BASE_FAIL and passed >= 155
    log['confirmed'] = ok
    log['needs'] = open(meta).read() if os.path.exists(meta) else ''
    if ok:
        d = '/verif/seeded/%s' % name
        os.makedirs(d, exist_ok=True)
        shutil.copy(patch, os.path.join(d, 'patch.diff'))
        shutil.copy(demo, os.path.join(d, 'demo.rs'))
        json.dump({'property': prop, 'breaks': prop, 'needs_to_manifest': log['needs'], 'confirmed_by': log['ran'],
                   'demo_placement': '%s (%s)' % (target, mode), 'demo_tests': tests, 'source': 'independent sub-agent, scratch worktree'},
                  open(os.path.join(d, 'meta.json'), 'w'), indent=1)
    print(json.dumps({k: log[k] for k in ('name', 'confirmed', 'ran')})[:1500])
finally:
    subprocess.run(['git', '-C', '/repo', 'worktree', 'remove', '--force', wt], capture_output=True)
