"""Executable reference of what an LSP client does with a text document, written from the LSP
specification (3.17, "Text Documents", position encoding utf-16) - deliberately naive.
This is the oracle of the LineMap unit; it shares no code with glas.

A document is a Python str.  Offsets are UTF-8 byte offsets (what the server uses),
positions are (line, UTF-16 code unit column) (what the client sends).
"""


def strip_cr(t):
    return t.replace('\r', '')


def utf8_len(c):
    return len(c.encode('utf-8'))


def utf16_len(c):
    return 2 if ord(c) > 0xFFFF else 1


def boundaries(t):
    """UTF-8 byte offsets that are character boundaries, in order (incl. 0 and len)."""
    out = [0]
    o = 0
    for c in t:
        o += utf8_len(c)
        out.append(o)
    return out


def byte_len(t):
    return len(t.encode('utf-8'))


def client_line_col(t, off):
    """(line, utf16 col) of the character boundary `off` in a text whose line breaks are '\\n'."""
    line, col, o = 0, 0, 0
    for c in t:
        if o == off:
            return line, col
        if c == '\n':
            line, col = line + 1, 0
        else:
            col += utf16_len(c)
        o += utf8_len(c)
    assert o == off, 'not a character boundary'
    return line, col


def lines(t):
    return t.split('\n')


def line_utf16_len(t, line):
    ls = lines(t)
    if line >= len(ls):
        return None
    return sum(utf16_len(c) for c in ls[line])


def client_offset(t, line, col):
    """byte offset of the client position, or None when the position is not a valid position of
    the document: the line does not exist, the column is past the line's UTF-16 length, or it
    falls between the two code units of a surrogate pair."""
    ls = lines(t)
    if line >= len(ls):
        return None
    off = sum(byte_len(l) + 1 for l in ls[:line])
    c16 = 0
    for c in ls[line]:
        if c16 == col:
            return off
        if c16 > col:
            return None
        c16 += utf16_len(c)
        off += utf8_len(c)
    if c16 == col:
        return off
    return None


def valid_positions(t):
    """all (line, col, byte offset) of the document"""
    out = []
    for o in boundaries(t):
        l, c = client_line_col(t, o)
        out.append((l, c, o))
    return out


def client_apply(t, start, end, new_text):
    """apply one incremental change given as byte offsets on char boundaries"""
    b = t.encode('utf-8')
    return (b[:start] + new_text.encode('utf-8') + b[end:]).decode('utf-8')


def line_table(t):
    """what LineMap::normalize should compute for an already CR-free text"""
    b = t.encode('utf-8')
    starts = [0] + [i + 1 for i, x in enumerate(b) if x == 0x0A]
    diffs = {}
    for li, l in enumerate(lines(t)):
        d = []
        pos = 0
        for c in l:
            n8, n16 = utf8_len(c), utf16_len(c)
            if n8 - n16 > 0:
                d.append((pos, n8 - n16))
            pos += n8
        if d:
            diffs[li] = d
    return starts, diffs, len(b)


def decode_semantic_tokens(toks):
    """LSP relative decoding -> absolute (line, start, length, type, modifiers)"""
    out = []
    line, start = 0, 0
    for (dl, ds, ln, ty, mods) in toks:
        if dl != 0:
            line += dl
            start = ds
        else:
            start += ds
        out.append((line, start, ln, ty, mods))
    return out


def documents(alphabet, max_chars):
    """all strings of <= max_chars characters over the alphabet, shortest first"""
    out = ['']
    frontier = ['']
    for _ in range(max_chars):
        frontier = [d + c for d in frontier for c in alphabet]
        out += frontier
    return out
