"""Extractor for the position-conversion unit (Verus, C15): convert::{from_file, from_pos, from_file_pos, from_range}, verbatim, with

  R17  `ensure!(COND, "message", args..);` -> `if !(COND) { return Err(verif_error()); }`, `bail!(..)` -> `return Err(verif_error())`
       (what anyhow's macros expand to, minus the construction of the message, which no contract mentions)

`LineMap`, `Vfs`, `Arc`, `TextSize/TextRange`, `lsp_types::{Position, Range}`, `anyhow::Result` are stand-ins with
assumed contracts (contracts/conv_prelude.rs)."""
import os
import re
from rustcut import Source, AnchorLost, code_mask, match_brace
from extract_parser import Item, split_fn, strip_lead, fns_in


def rewrite_ensure(body):
    n = 0
    while True:
        mask = code_mask(body)
        mm = None
        for cand in re.finditer(r'\bensure!\s*\(', body):
            if mask[cand.start()]:
                mm = cand
                break
        if not mm:
            return body, n
        po = mm.end() - 1
        pc = match_brace(body, mask, po, '(', ')')
        inner = body[po + 1:pc]
        imask = code_mask(inner)
        depth, cut = 0, None
        for i, c in enumerate(inner):
            if not imask[i]:
                continue
            if c in '([{':
                depth += 1
            elif c in ')]}':
                depth -= 1
            elif c == ',' and depth == 0:
                cut = i
                break
        cond = (inner if cut is None else inner[:cut]).strip()
        tail = re.match(r'\s*;', body[pc + 1:])
        if not tail:
            raise AnchorLost('ensure!(..) not used as a statement')
        body = body[:mm.start()] + 'if !(%s) { return Err(verif_error()); }' % ' '.join(cond.split()) + body[pc + 1 + tail.end():]
        n += 1


def rewrite_bail(body):
    """R17b: `bail!("message", args..)` / `anyhow::bail!(..)` as a statement or block tail -> `return Err(verif_error())`"""
    n = 0
    while True:
        mask = code_mask(body)
        mm = None
        for cand in re.finditer(r'\b(?:anyhow::)?bail!\s*\(', body):
            if mask[cand.start()]:
                mm = cand
                break
        if not mm:
            return body, n
        po = mm.end() - 1
        pc = match_brace(body, mask, po, '(', ')')
        body = body[:mm.start()] + 'return Err(verif_error())' + body[pc + 1:]
        n += 1


def extract(repo):
    conv = Source(os.path.join(repo, 'crates/glas/src/convert.rs'))
    items, notes = [], []
    for name in ('from_file', 'from_pos', 'from_file_pos', 'from_range'):
        found = False
        for nm, fs, fo, fc in fns_in(conv, 0, 0, len(conv.text)):
            if nm == name:
                h, b = split_fn(conv, fs, fo, fc)
                b, n = rewrite_ensure(b)
                b, n2 = rewrite_bail(b)
                notes.append('%s: R17 ensure! statements rewritten: %d, bail! rewritten: %d' % (name, n, n2))
                if re.search(r'\b(bail|anyhow|format|ensure)!\s*\(', ''.join(c if m else ' ' for c, m in zip(b, code_mask(b)))):
                    raise AnchorLost('%s uses an error macro other than a statement-level ensure!' % name)
                items.append(Item('fn', name, None, 'crates/glas/src/convert.rs', conv.line_of(fs), header=strip_lead(h), body=b))
                found = True
        if not found:
            raise AnchorLost('convert.rs: no function %s' % name)
    return {'items': items, 'notes': notes}


def assemble(ex, prelude, fns_spec, loops_spec):
    import extract_semtok
    ex2 = dict(ex)
    ex2['ty_of'] = ''
    return extract_semtok.assemble(ex2, prelude, fns_spec, loops_spec)
