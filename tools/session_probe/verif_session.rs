
// ---- appended by /verif/tools/session_probe.py to a SCRATCH copy of crates/glas/src/server.rs (never to /repo) ----
// Bounded native probe for C15, clause "several changes where an earlier one is rejected ... the server process stays
// alive ... an edit it cannot apply is dropped (and the document forgotten), never applied somewhere else":
// the REAL Server::on_did_open / on_did_change on whole notifications.
#[cfg(test)]
mod verif_session {
    use super::*;
    use lsp_types::{Position, Range, TextDocumentContentChangeEvent, TextDocumentItem, VersionedTextDocumentIdentifier};
    use std::panic::AssertUnwindSafe;

    fn ch(range: Option<(u32, u32, u32, u32)>, text: &str) -> TextDocumentContentChangeEvent {
        TextDocumentContentChangeEvent {
            range: range.map(|(a, b, c, d)| Range::new(Position::new(a, b), Position::new(c, d))),
            range_length: None,
            text: text.into(),
        }
    }

    /// opens `doc`, sends ONE didChange notification with `changes`; expect = Some(text afterwards) | None (document forgotten)
    fn scenario(doc: &str, changes: Vec<TextDocumentContentChangeEvent>, expect: Option<&str>) {
        let mut s = Server::new(ClientSocket::new_closed(), vec![]);
        let uri = Url::parse("file:///verif_session/a.gleam").unwrap();
        let _ = s.on_did_open(DidOpenTextDocumentParams {
            text_document: TextDocumentItem { uri: uri.clone(), language_id: "gleam".into(), version: 1, text: doc.into() },
        });
        let r = std::panic::catch_unwind(AssertUnwindSafe(|| {
            let _ = s.on_did_change(DidChangeTextDocumentParams {
                text_document: VersionedTextDocumentIdentifier { uri: uri.clone(), version: 2 },
                content_changes: changes,
            });
        }));
        assert!(r.is_ok(), "VERIF-SYMPTOM on_did_change panicked");
        assert!(s.vfs.write().is_ok(), "VERIF-SYMPTOM the vfs lock is poisoned: every later request fails");
        let vfs = s.vfs.read().unwrap();
        match expect {
            Some(text) => {
                let file = vfs.file_for_uri(&uri).expect("VERIF-SYMPTOM document lost although every change was applicable");
                assert_eq!(&*vfs.content_for_file(file), text, "VERIF-SYMPTOM applicable changes of one notification applied in order");
            }
            None => {
                assert!(vfs.file_for_uri(&uri).is_err(), "VERIF-SYMPTOM document not forgotten after a change that cannot be applied");
                assert!(!s.opened_files.contains_key(&uri), "VERIF-SYMPTOM document still counted as open after a change that cannot be applied");
            }
        }
    }

    /// C13, history clause: after any sequence of applicable notifications the server's text is the client's text without CR
    fn history(doc: &str, notifications: Vec<Vec<TextDocumentContentChangeEvent>>, expect: &str) {
        let mut s = Server::new(ClientSocket::new_closed(), vec![]);
        let uri = Url::parse("file:///verif_session/h.gleam").unwrap();
        let _ = s.on_did_open(DidOpenTextDocumentParams {
            text_document: TextDocumentItem { uri: uri.clone(), language_id: "gleam".into(), version: 1, text: doc.into() },
        });
        let mut version = 1;
        for changes in notifications {
            version += 1;
            let r = std::panic::catch_unwind(AssertUnwindSafe(|| {
                let _ = s.on_did_change(DidChangeTextDocumentParams {
                    text_document: VersionedTextDocumentIdentifier { uri: uri.clone(), version },
                    content_changes: changes,
                });
            }));
            assert!(r.is_ok(), "VERIF-SYMPTOM on_did_change panicked");
        }
        let vfs = s.vfs.read().unwrap();
        let file = vfs.file_for_uri(&uri).expect("VERIF-SYMPTOM document lost although every change was applicable");
        assert_eq!(&*vfs.content_for_file(file), expect, "VERIF-SYMPTOM server text differs from the client's text (CR removed) after an edit history");
    }

    #[tokio::test]
    async fn valid_then_valid() { scenario("a", vec![ch(Some((0, 0, 0, 0)), "x"), ch(Some((0, 2, 0, 2)), "y")], Some("xay")); }
    #[tokio::test]
    async fn rejected_then_ranged() { scenario("a", vec![ch(Some((5, 0, 5, 0)), "x"), ch(Some((0, 0, 0, 0)), "y")], None); }
    #[tokio::test]
    async fn rejected_then_full_text() { scenario("a", vec![ch(Some((0, 9, 0, 9)), "x"), ch(None, "b")], None); }
    #[tokio::test]
    async fn valid_then_rejected() { scenario("a", vec![ch(Some((0, 1, 0, 1)), "x"), ch(Some((0, 1, 0, 0)), "y")], None); }
    #[tokio::test]
    async fn rejected_alone() { scenario("a\n", vec![ch(Some((2, 0, 2, 0)), "x")], None); }
    #[tokio::test]
    async fn three_changes_middle_rejected() { scenario("a", vec![ch(None, "b"), ch(Some((1, 0, 1, 0)), "x"), ch(Some((0, 0, 0, 1)), "")], None); }
    #[tokio::test]
    async fn mid_surrogate_then_valid() { scenario("\u{1F4A3}", vec![ch(Some((0, 1, 0, 1)), "x"), ch(Some((0, 0, 0, 0)), "y")], None); }
    #[tokio::test]
    async fn multibyte_valid_then_valid() { scenario("\u{df}\n\u{1F4A3}", vec![ch(Some((1, 2, 1, 2)), "x"), ch(Some((0, 1, 1, 0)), "")], Some("\u{df}\u{1F4A3}x")); }

    // several documents: A is forgotten (an inapplicable change), then C is opened and takes A's slot in the file table.
    // Every document must keep its own text and id; the forgotten one must stay forgotten; nothing may panic.
    fn open(s: &mut Server, name: &str, text: &str) -> Url {
        let uri = Url::parse(&format!("file:///verif_session/{name}.gleam")).unwrap();
        let _ = s.on_did_open(DidOpenTextDocumentParams {
            text_document: TextDocumentItem { uri: uri.clone(), language_id: "gleam".into(), version: 1, text: text.into() },
        });
        uri
    }
    fn change(s: &mut Server, uri: &Url, changes: Vec<TextDocumentContentChangeEvent>) {
        let r = std::panic::catch_unwind(AssertUnwindSafe(|| {
            let _ = s.on_did_change(DidChangeTextDocumentParams {
                text_document: VersionedTextDocumentIdentifier { uri: uri.clone(), version: 2 },
                content_changes: changes,
            });
        }));
        assert!(r.is_ok(), "VERIF-SYMPTOM on_did_change panicked");
        assert!(s.vfs.write().is_ok(), "VERIF-SYMPTOM the vfs lock is poisoned: every later request fails");
    }
    fn text_of(s: &Server, uri: &Url) -> Option<String> {
        let r = std::panic::catch_unwind(AssertUnwindSafe(|| {
            let vfs = s.vfs.read().unwrap();
            vfs.file_for_uri(uri).ok().map(|f| vfs.content_for_file(f).to_string())
        }));
        assert!(r.is_ok(), "VERIF-SYMPTOM reading a document's text panicked (vacant slot of the file table)");
        r.unwrap()
    }
    #[tokio::test]
    async fn multi_doc_slot_reuse() {
        let mut s = Server::new(ClientSocket::new_closed(), vec![]);
        let a = open(&mut s, "a", "aa");
        let b = open(&mut s, "b", "bb");
        change(&mut s, &a, vec![ch(Some((7, 0, 7, 0)), "x")]);          // cannot be applied: A is forgotten
        assert_eq!(text_of(&s, &a), None, "VERIF-SYMPTOM document not forgotten after a change that cannot be applied");
        let c = open(&mut s, "c", "cc");                                  // takes the freed slot
        assert_eq!(text_of(&s, &a), None, "VERIF-SYMPTOM a forgotten document is served again after another one was opened");
        assert_eq!(text_of(&s, &b).as_deref(), Some("bb"), "VERIF-SYMPTOM another document's text changed");
        assert_eq!(text_of(&s, &c).as_deref(), Some("cc"), "VERIF-SYMPTOM a newly opened document is served with another document's text");
        change(&mut s, &a, vec![ch(Some((0, 0, 0, 0)), "X")]);          // a change for a forgotten document: ignored
        change(&mut s, &c, vec![ch(Some((0, 0, 0, 0)), "Y")]);
        assert_eq!(text_of(&s, &b).as_deref(), Some("bb"), "VERIF-SYMPTOM an edit was applied to another document");
        assert_eq!(text_of(&s, &c).as_deref(), Some("Ycc"), "VERIF-SYMPTOM an edit was not applied to the document it names");
        change(&mut s, &c, vec![ch(Some((9, 0, 9, 0)), "x")]);          // C is forgotten
        assert_eq!(text_of(&s, &c), None, "VERIF-SYMPTOM document not forgotten after a change that cannot be applied");
        assert_eq!(text_of(&s, &b).as_deref(), Some("bb"), "VERIF-SYMPTOM forgetting one document lost or changed another");
        let a2 = open(&mut s, "a", "a2");                                 // re-open A while B lives above the hole
        assert_eq!(text_of(&s, &a2).as_deref(), Some("a2"), "VERIF-SYMPTOM a re-opened document is served with another text");
        assert_eq!(text_of(&s, &b).as_deref(), Some("bb"), "VERIF-SYMPTOM re-opening a document changed another");
    }

    // C13, re-open: a document that is already known is opened again with another text of the same byte length and the same line
    // starts but a different layout of multi-byte characters; the next edit must land where the client means it
    fn reopen(first: &str, second: &str, change: TextDocumentContentChangeEvent, expect: &str) {
        let mut s = Server::new(ClientSocket::new_closed(), vec![]);
        let uri = open(&mut s, "r", first);
        let uri2 = open(&mut s, "r", second);
        assert_eq!(uri, uri2);
        assert_eq!(text_of(&s, &uri).as_deref(), Some(&*second.replace('\r', "")), "VERIF-SYMPTOM re-opening a document did not replace its text");
        self::change(&mut s, &uri, vec![change]);
        assert_eq!(text_of(&s, &uri).as_deref(), Some(expect), "VERIF-SYMPTOM server text differs from the client's text (CR removed) after an edit history");
    }
    #[tokio::test]
    async fn history_reopen_same_layout_1() { reopen("abc\nxyz", "\u{e9}c\nxyz", ch(Some((0, 2, 0, 2)), "!"), "\u{e9}c!\nxyz"); }
    #[tokio::test]
    async fn history_reopen_same_layout_2() { reopen("\u{e9}c\nxyz", "abc\nxyz", ch(Some((0, 2, 0, 2)), "!"), "ab!c\nxyz"); }
    #[tokio::test]
    async fn history_reopen_same_layout_3() { reopen("abcde\r\nz", "a\u{1F600}\r\nz", ch(Some((0, 3, 0, 3)), "!"), "a\u{1F600}!\nz"); }
    #[tokio::test]
    async fn history_reopen_then_empty_full_text() { reopen("ab", "cd", ch(None, ""), ""); }
}
