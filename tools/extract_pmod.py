"""Extractor for the parse_module glue unit (Verus, C01): the statement of `parse_module` that filters the trivia out of the raw token
vector, cut verbatim, together with the kind predicates of kind.rs (as in the parser unit), with

  R29  `RAW.clone().into_iter().filter(|&T| E).collect()`  ->  `verif_vec_filter(&RAW, |T| E)`
       (external_body helper whose body is `v.clone().into_iter().filter(|&t| f(t)).collect()`; assumed contract: the standard
       library's meaning of filter + collect on a vector of Copy elements, stated witness-free over the closure's ensures relation)

What the unit proves is, TEXTUALLY, the two facts that the end-to-end lemma verif_parse of the parser unit takes as `requires`
(contracts/parser_top_bt.rs: the parser's token vector has exactly the non-trivia raw tokens' length; all its kinds are token kinds),
from the single remaining assumption about the lexer: raw tokens carry token kinds only.  The spec functions (kidx, is_tok,
is_trivia_spec, is_ws_spec, is_doc_spec, n_real) are copied by name out of the parser unit's preludes on every run."""
import os
import re
from rustcut import Source, AnchorLost, code_mask, match_brace
import extract_parser

SPEC_FNS = ('kidx', 'is_tok', 'is_trivia_spec', 'is_ws_spec', 'is_doc_spec', 'n_real')
KIND_FNS = ('SyntaxKind::is_whitespace', 'SyntaxKind::is_module_doc', 'SyntaxKind::is_trivia', 'SyntaxKind::is_stmt_doc', 'SyntaxKind::is_doc')


def copy_spec_fns(verif):
    text = open(os.path.join(verif, 'contracts/parser_prelude.rs')).read() + '\n' + open(os.path.join(verif, 'contracts/parser_prelude_bt.rs')).read()
    out = []
    for nm in SPEC_FNS:
        mm = re.search(r'^spec fn %s\b[^{]*\{' % nm, text, re.M)
        if not mm:
            raise AnchorLost('parser preludes: spec fn %s not found' % nm)
        close = match_brace(text, code_mask(text), mm.end() - 1)
        out.append(text[mm.start():close + 1])
    return '\n'.join(out) + '\n'


def verif_parse_requires(verif):
    text = open(os.path.join(verif, 'contracts/parser_top_bt.rs')).read()
    mm = re.search(r'fn verif_parse<[^>]*>\([^)]*\)\s*->\s*\(r: Parse\)\s*requires (.*?)\n\s*ensures', text, re.S)
    if not mm:
        raise AnchorLost('contracts/parser_top_bt.rs: the requires of verif_parse not found')
    req = ' '.join(mm.group(1).split()).rstrip(',')
    # the length bound is about the machine (a Vec of 40-byte tokens), not about the filter
    clauses = [c.strip() for c in re.split(r',\s*(?=forall|tokens@)', req) if 'usize::MAX' not in c]
    return clauses


def extract(repo):
    ex = extract_parser.extract(repo)
    parser = Source(os.path.join(repo, 'crates/syntax/src/parser.rs'))
    s_, o_, c_ = parser.cut_braced(r'^pub fn parse_module\b', 0)
    pm = parser.text[o_:c_ + 1]
    mm = re.search(r'let\s+tokens\s*=\s*(\w+)\s*\.\s*clone\s*\(\s*\)\s*\.\s*into_iter\s*\(\s*\)\s*\.\s*filter\s*\(\s*\|\s*&\s*(\w+)\s*\|\s*(.*?)\)\s*\.\s*collect\s*\(\s*\)\s*;', pm, re.S)
    if not mm:
        raise AnchorLost('parse_module: the trivia filter is not of the form `let tokens = RAW.clone().into_iter().filter(|&t| E).collect();` (R29)')
    raw, var, expr = mm.group(1), mm.group(2), ' '.join(mm.group(3).split())
    byname = {it.name: it for it in ex['items']}
    for need in ('SyntaxKind', 'LexToken', 'SyntaxKind::is_trivia'):
        if need not in byname:
            raise AnchorLost('parser extraction: item %s not found' % need)
    # is_trivia and the kind predicates it is written through (transitively); the others are not needed here
    want, todo = [], ['SyntaxKind::is_trivia'] + ['SyntaxKind::' + x for x in re.findall(r'\.\s*(is_\w+)\s*\(', expr) if 'SyntaxKind::' + x in byname]
    while todo:
        nm = todo.pop()
        if nm in want:
            continue
        want.append(nm)
        for callee in re.findall(r'\b(?:self|Self)\s*(?:\.|::)\s*(is_\w+)\s*\(', byname[nm].body):
            if 'SyntaxKind::' + callee in byname:
                todo.append('SyntaxKind::' + callee)
    items = [it for it in ex['items'] if it.name in ('SyntaxKind', 'SyntaxKind::<anchors>', 'LexToken') or it.name in want]
    return {'items': items, 'filter': (raw, var, expr), 'filter_line': parser.line_of(o_ + mm.start()),
            'notes': ['R29: `let tokens = %s.clone().into_iter().filter(|&%s| %s).collect();` -> verif_vec_filter(&%s, |%s| %s)' % (raw, var, expr, raw, var, expr)]}


def assemble(ex, prelude, fns_spec, loops_spec):
    import weave
    verif = os.path.dirname(os.path.dirname(os.path.abspath(__file__)))
    used_fn, used_loop, defaulted = set(), set(), []
    have = set(it.name for it in ex['items'])
    fns_spec = {k: v for k, v in fns_spec.items() if k in KIND_FNS and k in have}
    chunks = [('use vstd::prelude::*;\nverus! {\n', None), (prelude.split('// ===== after the extracted items =====')[0] + '\n', None)]
    for it in ex['items']:
        if it.kind == 'type':
            chunks.append((it.text + '\n', it))
    chunks.append(('// ----- copied by name from contracts/parser_prelude.rs / parser_prelude_bt.rs -----\n' + copy_spec_fns(verif), None))
    chunks.append(('impl SyntaxKind {\n', None))
    for it in ex['items']:
        if it.kind == 'fn':
            chunks.append((weave.emit_fn(it, fns_spec, loops_spec, used_fn, used_loop, defaulted), it))
    chunks.append(('}\n', None))
    raw, var, expr = ex['filter']
    req = verif_parse_requires(verif)
    top = prelude.split('// ===== after the extracted items =====')[1]
    top = top.replace('@RAW@', raw).replace('@ENSURES@', ',\n        '.join(c.replace('tokens_raw@', raw + '@').replace('tokens@', 'r@') for c in req))
    top = top.replace('@FILTER@', 'verif_vec_filter(&%s, |%s: LexToken| -> (b: bool) ensures b == !is_trivia_spec(%s.kind) { %s })' % (raw, var, var, expr))
    item = extract_parser.Item('fn', 'parse_module (trivia filter)', None, 'crates/syntax/src/parser.rs', ex['filter_line'])
    chunks.append((top + '\n', item))
    chunks.append(('} // verus!\nfn main() {}\n', None))
    text, linemap, line = '', [], 1
    for chunk, it in chunks:
        n = chunk.count('\n')
        if it is not None:
            linemap.append((line, line + n - 1, it.path, it.line, it.name))
        text += chunk
        line += n
    return text, linemap, {'contracted': sorted(used_fn) + ['parse_module (trivia filter statement)'], 'loops_contracted': [],
                           'bridged_contracts': ['parser:verif_parse requires: ' + c for c in req]}
