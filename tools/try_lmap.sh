#!/bin/sh
# development aid: build the lmap unit from a tree (default /repo) and run Verus on it
cd /verif/tools && python3 - "$@" <<'E'
import sys, os, subprocess
sys.path.insert(0,'.')
import extract_lmap, weave
ex=extract_lmap.extract(sys.argv[1] if len(sys.argv)>1 else '/repo')
fns,loops=weave.parse_spec(open('/verif/contracts/lmap.spec').read())
text,lm,info=extract_lmap.assemble(ex, open('/verif/contracts/lmap_prelude.rs').read(), fns, loops)
os.makedirs('/var/tmp/lmproto/u',exist_ok=True)
open('/var/tmp/lmproto/u/lmap_unit.rs','w').write(text)
r=subprocess.run(['verus','lmap_unit.rs','--triggers-mode','silent','--multiple-errors','10'],cwd='/var/tmp/lmproto/u',capture_output=True,text=True)
print((r.stdout+r.stderr)[-6000:])
E
