"""Minimal Rust-source cutter: brace matching with string/char/comment awareness.

No Rust parser is available offline; items are located by a header regex at a
given brace depth and cut by balanced braces.  Function bodies are copied
verbatim.  Anything this module cannot locate raises AnchorLost, which every
caller turns into exit 2 (undecided) - never into an alarm.
"""
import re


class AnchorLost(Exception):
    pass


def code_mask(src):
    """Return a list `m` with m[i] == True iff src[i] is code (not inside a
    comment, string literal or char literal)."""
    n = len(src)
    m = [True] * n
    i = 0
    while i < n:
        c = src[i]
        if c == '/' and i + 1 < n and src[i + 1] == '/':
            j = src.find('\n', i)
            if j < 0:
                j = n
            for k in range(i, j):
                m[k] = False
            i = j
        elif c == '/' and i + 1 < n and src[i + 1] == '*':
            depth = 1
            j = i + 2
            while j < n and depth > 0:
                if src.startswith('/*', j):
                    depth += 1
                    j += 2
                elif src.startswith('*/', j):
                    depth -= 1
                    j += 2
                else:
                    j += 1
            for k in range(i, j):
                m[k] = False
            i = j
        elif c == '"' or (c == 'r' and re.match(r'r#*"', src[i:i + 8]) and (i == 0 or not (src[i - 1].isalnum() or src[i - 1] == '_'))):
            if c == 'r':
                mm = re.match(r'r(#*)"', src[i:])
                hashes = mm.group(1)
                end = src.find('"' + hashes, i + len(mm.group(0)))
                if end < 0:
                    raise AnchorLost('unterminated raw string')
                j = end + 1 + len(hashes)
            else:
                j = i + 1
                while j < n and src[j] != '"':
                    if src[j] == '\\':
                        j += 1
                    j += 1
                j += 1
            for k in range(i, j):
                m[k] = False
            i = j
        elif c == "'":
            # char literal or lifetime
            mm = re.match(r"'(\\.[^']*|[^\\'])'", src[i:])
            if mm:
                j = i + len(mm.group(0))
                for k in range(i, j):
                    m[k] = False
                i = j
            else:
                i += 1  # lifetime
        else:
            i += 1
    return m


def match_brace(src, mask, open_idx, open_ch='{', close_ch='}'):
    """Index of the closer matching the opener at open_idx."""
    assert src[open_idx] == open_ch
    depth = 0
    for i in range(open_idx, len(src)):
        if not mask[i]:
            continue
        if src[i] == open_ch:
            depth += 1
        elif src[i] == close_ch:
            depth -= 1
            if depth == 0:
                return i
    raise AnchorLost('unbalanced %s at %d' % (open_ch, open_idx))


def depth_at(src, mask):
    """Brace depth before each character."""
    d = 0
    out = [0] * (len(src) + 1)
    for i, c in enumerate(src):
        out[i] = d
        if mask[i]:
            if c == '{':
                d += 1
            elif c == '}':
                d -= 1
    out[len(src)] = d
    return out


class Source:
    def __init__(self, path, text=None):
        self.path = path
        self.text = text if text is not None else open(path).read()
        self.mask = code_mask(self.text)
        self.depth = depth_at(self.text, self.mask)

    def line_of(self, idx):
        return self.text.count('\n', 0, idx) + 1

    def find_header(self, pattern, depth=0, start=0, end=None):
        """First match of regex `pattern` (multiline) that lies in code at the
        given brace depth."""
        rx = re.compile(pattern, re.M)
        pos = start
        end = len(self.text) if end is None else end
        while True:
            mm = rx.search(self.text, pos, end)
            if not mm:
                return None
            if self.mask[mm.start()] and self.depth[mm.start()] == depth:
                return mm
            pos = mm.start() + 1

    def cut_braced(self, pattern, depth=0, start=0, end=None):
        """Cut an item `header { ... }`.  Returns (start, body_open, body_close)."""
        mm = self.find_header(pattern, depth, start, end)
        if not mm:
            raise AnchorLost('%s: no item matching /%s/' % (self.path, pattern))
        i = mm.end()
        # find the first '{' in code after the header start, at same depth
        j = mm.start()
        while j < len(self.text):
            if self.mask[j] and self.text[j] == '{' and self.depth[j] == depth:
                break
            if self.mask[j] and self.text[j] == ';' and self.depth[j] == depth and j >= i:
                raise AnchorLost('%s: item /%s/ has no body' % (self.path, pattern))
            j += 1
        else:
            raise AnchorLost('%s: item /%s/ has no body' % (self.path, pattern))
        k = match_brace(self.text, self.mask, j)
        return mm.start(), j, k

    def cut_semi(self, pattern, depth=0, start=0, end=None):
        """Cut an item ending in ';' at the same depth (const / use)."""
        mm = self.find_header(pattern, depth, start, end)
        if not mm:
            raise AnchorLost('%s: no item matching /%s/' % (self.path, pattern))
        j = mm.end()
        pd = 0
        while j < len(self.text):
            if self.mask[j]:
                c = self.text[j]
                if c in '([{':
                    pd += 1
                elif c in ')]}':
                    pd -= 1
                elif c == ';' and pd == 0:
                    return mm.start(), j
            j += 1
        raise AnchorLost('%s: item /%s/ not terminated' % (self.path, pattern))

    def attrs_start(self, idx):
        """Extend an item start backwards over directly preceding #[...] attribute
        lines and doc comments."""
        start = idx
        while True:
            ls = self.text.rfind('\n', 0, start - 1) + 1 if start > 0 else 0
            line = self.text[ls:start].strip()
            if start > 0 and (line.startswith('#[') or line.startswith('///')):
                start = ls
            else:
                return start


IDENT_RX = re.compile(r'[A-Za-z_][A-Za-z0-9_]*')


def replace_idents(text, fn):
    """Apply fn(ident, prev_code_text, next_text) -> replacement|None to every
    identifier token in code positions of `text`."""
    mask = code_mask(text)
    out = []
    last = 0
    for mm in IDENT_RX.finditer(text):
        s, e = mm.span()
        if not mask[s]:
            continue
        if s > 0 and (text[s - 1].isalnum() or text[s - 1] == '_'):
            continue
        rep = fn(mm.group(0), text[:s], text[e:])
        if rep is not None:
            out.append(text[last:s])
            out.append(rep)
            last = e
    out.append(text[last:])
    return ''.join(out)


def split_items(src):
    """Split a Source into its top-level items.  -> list of (start, end, header) where text[start:end] is the
    item including the comments / attributes in front of it and `header` is the item text from its first
    code character (attributes included) up to its body or terminating ';'."""
    text, mask = src.text, src.mask
    n = len(text)
    items = []
    pos = 0
    i = 0
    while i < n:
        # next code character at depth 0
        while i < n and (not mask[i] or text[i].isspace()):
            i += 1
        if i >= n:
            break
        first = i
        pd = 0
        j = i
        end = None
        while j < n:
            if mask[j]:
                c = text[j]
                if c in '([':
                    pd += 1
                elif c in ')]':
                    pd -= 1
                elif c == ';' and pd == 0:
                    end = j + 1
                    break
                elif c == '{' and pd == 0:
                    k = match_brace(text, mask, j)
                    end = k + 1
                    # `use a::{b, c};` and similar: swallow a directly following ';'
                    m = end
                    while m < n and (text[m] in ' \t'):
                        m += 1
                    if m < n and text[m] == ';' and mask[m]:
                        end = m + 1
                    # `#[attr] ... { }` where the brace belonged to an attribute argument cannot happen at depth 0
                    break
            j += 1
        if end is None:
            raise AnchorLost('%s: unterminated top-level item near line %d' % (src.path, src.line_of(first)))
        items.append((pos, end, text[first:j if j < n else end]))
        pos = end
        i = end
    return items
