"""Extractor for the semantic-token encoder unit (Verus, C19).

Cut verbatim from /repo's working tree:
  crates/glas/src/convert.rs           to_range, to_semantic_tokens
  crates/glas/src/semantic_tokens.rs   to_semantic_type_and_modifiers, struct TokenModSet, the def_index! table of token types
  crates/ide/src/ide/semantic_highlighting.rs   struct HlRange, enum HlTag

Rewrites (the complete list; anything else stops the run with AnchorLost = exit 2):
  R13  destructuring assignment `(a, b) = (x, y);` -> `let (verif_t0, verif_t1) = (x, y); a = verif_t0; b = verif_t1;`
       (Rust evaluates the right-hand side first and then assigns left to right; Verus has no destructuring assignment)
  R14  `if C { continue; } REST` as a statement of a `for` body, REST being the remainder of that body
       -> `if C { } else { REST }`   (Verus: "for-loops do not yet support continue")
  R15  `def_index! { Ty, ARRAY, Enum; A => e1, B => e2, .. }` -> `enum Enum { A, B, .. }` (what the macro expands to; the
       constant array ARRAY of LSP token types is not needed by the encoder and is dropped) and the generated
       `spec fn ty_of(tag)` = position of the entry named like the tag = its index in the advertised legend
  R16  the module path in `semantic_tokens::to_semantic_type_and_modifiers(..)` is dropped (single-module file)
  R9   derive lists reduced to Clone, Copy, PartialEq, Eq (+ Default where present)
"""
import os
import re
from rustcut import Source, AnchorLost, code_mask, match_brace
from extract_parser import Item, split_fn, strip_lead, fns_in


def reduce_derive(text):
    def rep(mm):
        keep = [d for d in re.split(r'\s*,\s*', mm.group(1).strip()) if d in ('Clone', 'Copy', 'PartialEq', 'Eq', 'Default')]
        return '#[derive(%s)]' % ', '.join(keep) if keep else ''
    return re.sub(r'#\[derive\(([^)]*)\)\]', rep, text)


def rewrite_destructuring_assign(body):
    """R13"""
    n = 0
    rx = re.compile(r'^([ \t]*)\(\s*(\w+)\s*,\s*(\w+)\s*\)\s*=\s*\(([^;]*)\)\s*;', re.M)
    while True:
        mask = code_mask(body)
        mm = None
        for cand in rx.finditer(body):
            if mask[cand.start(2)]:
                mm = cand
                break
        if not mm:
            return body, n
        ind, a, b, rhs = mm.groups()
        body = body[:mm.start()] + '%slet (verif_t0, verif_t1) = (%s); %s = verif_t0; %s = verif_t1;' % (ind, rhs, a, b) + body[mm.end():]
        n += 1


def rewrite_continue(body):
    """R14"""
    n = 0
    rx = re.compile(r'\bif\b([^{};]*)\{\s*continue\s*;\s*\}')
    while True:
        mask = code_mask(body)
        mm = None
        for cand in rx.finditer(body):
            if mask[cand.start()]:
                mm = cand
                break
        if not mm:
            if re.search(r'\bcontinue\b', ''.join(c if m else ' ' for c, m in zip(body, mask))):
                raise AnchorLost('a `continue` that is not of the form `if C { continue; }` at the top level of a for body')
            return body, n
        # the enclosing block must be the body of a `for` loop, and the `if` a statement of that block
        depth = 0
        k = mm.start() - 1
        while k >= 0:
            if mask[k]:
                if body[k] == '}':
                    depth += 1
                elif body[k] == '{':
                    if depth == 0:
                        break
                    depth -= 1
            k -= 1
        if k < 0:
            raise AnchorLost('continue outside a block')
        head = body[:k]
        hm = re.search(r'\bfor\b[^{};]*$', ''.join(c if m else ' ' for c, m in zip(head, code_mask(head))))
        if not hm:
            raise AnchorLost('`if C { continue; }` is not a direct statement of a for body')
        close = match_brace(body, mask, k)
        rest = body[mm.end():close]
        body = body[:mm.start()] + 'if' + mm.group(1) + '{\n            } else {' + rest + '}\n        ' + body[close:]
        n += 1


def parse_def_index(src, enum_name):
    """R15: the def_index! invocation that defines `enum_name` -> list of (ident, expr)"""
    pos = 0
    while True:
        mm = src.find_header(r'^def_index!\s*\{', 0, pos)
        if not mm:
            raise AnchorLost('no def_index! invocation defining %s' % enum_name)
        s, o, c = src.cut_braced(r'^def_index!\s*\{', 0, mm.start())
        inner = src.text[o + 1:c]
        head, _, rest = inner.partition(';')
        parts = [x.strip() for x in head.split(',')]
        if len(parts) == 3 and parts[2] == enum_name:
            entries = []
            for ent in rest.split(','):
                ent = ent.strip()
                if not ent:
                    continue
                em = re.match(r'^(\w+)\s*=>\s*(.+)$', ent, re.S)
                if not em:
                    raise AnchorLost('def_index! entry not understood: %r' % ent)
                entries.append((em.group(1), ' '.join(em.group(2).split())))
            return entries, src.line_of(s)
        pos = c + 1


def extract(repo):
    conv = Source(os.path.join(repo, 'crates/glas/src/convert.rs'))
    st = Source(os.path.join(repo, 'crates/glas/src/semantic_tokens.rs'))
    hl = Source(os.path.join(repo, 'crates/ide/src/ide/semantic_highlighting.rs'))
    items = []
    notes = []

    for nm, pat, src, path in (('HlTag', r'^pub enum HlTag\b', hl, 'crates/ide/src/ide/semantic_highlighting.rs'),
                               ('HlRange', r'^pub struct HlRange\b', hl, 'crates/ide/src/ide/semantic_highlighting.rs')):
        s, o, c = src.cut_braced(pat, 0)
        s0 = src.attrs_start(s)
        items.append(Item('type', nm, reduce_derive(src.text[s0:c + 1]), path, src.line_of(s)))
    s, e = st.cut_semi(r'^pub struct TokenModSet\b', 0)
    s0 = st.attrs_start(s)
    items.append(Item('type', 'TokenModSet', reduce_derive(st.text[s0:e + 1]), 'crates/glas/src/semantic_tokens.rs', st.line_of(s)))

    entries, line = parse_def_index(st, 'TokenTypeIdx')
    items.append(Item('type', 'TokenTypeIdx', '#[derive(Clone, Copy, PartialEq, Eq)]\npub enum TokenTypeIdx { %s }' % ', '.join(e[0] for e in entries),
                      'crates/glas/src/semantic_tokens.rs', line))
    # HlTag variants, for the generated legend-index spec
    tm = re.search(r'enum HlTag\s*\{([^}]*)\}', items[0].text)
    tags = [t.strip() for t in tm.group(1).split(',') if t.strip()]
    names = [e[0] for e in entries]
    arms = []
    for t in tags:
        if t not in names:
            raise AnchorLost('HlTag::%s has no entry of the same name in the def_index! table of token types' % t)
        arms.append('HlTag::%s => %d' % (t, names.index(t)))
    ty_of = ('// generated (R15): index of the tag\'s entry in the def_index! table = index of its type in the legend the server advertises\n'
             'pub open spec fn ty_of(tag: HlTag) -> int { match tag { %s } }' % ', '.join(arms))
    legend = ['%s => %s' % e for e in entries]

    def take_fn(src, path, name):
        for nm, fs, fo, fc in fns_in(src, 0, 0, len(src.text)):
            if nm == name:
                h, b = split_fn(src, fs, fo, fc)
                return Item('fn', name, None, path, src.line_of(fs), header=strip_lead(h), body=b)
        raise AnchorLost('%s: no function %s' % (path, name))

    items.append(take_fn(st, 'crates/glas/src/semantic_tokens.rs', 'to_semantic_type_and_modifiers'))
    items.append(take_fn(conv, 'crates/glas/src/convert.rs', 'to_range'))
    f = take_fn(conv, 'crates/glas/src/convert.rs', 'to_semantic_tokens')
    f.body, n13 = rewrite_destructuring_assign(f.body)
    f.body, n14 = rewrite_continue(f.body)
    f.body, n16 = re.subn(r'\bsemantic_tokens::(to_semantic_type_and_modifiers)\b', r'\1', f.body)
    notes += ['R13 destructuring assignments rewritten: %d' % n13, 'R14 `if C { continue; }` rewritten: %d' % n14,
              'R16 module paths dropped: %d' % n16]
    items.append(f)
    return {'items': items, 'ty_of': ty_of, 'legend': legend, 'notes': notes}


def assemble(ex, prelude, fns_spec, loops_spec):
    import weave
    used_fn, used_loop, defaulted = set(), set(), []
    chunks = [('use vstd::prelude::*;\nuse std::sync::Arc;\nverus! {\n', None), (prelude + '\n', None), (ex['ty_of'] + '\n', None)]
    for it in ex['items']:
        if it.kind == 'type':
            chunks.append((it.text + '\n', it))
    for it in ex['items']:
        if it.kind == 'fn':
            chunks.append((weave.emit_fn(it, fns_spec, loops_spec, used_fn, used_loop, defaulted), it))
    chunks.append(('} // verus!\nfn main() {}\n', None))
    for nm in fns_spec:
        if nm not in used_fn:
            raise AnchorLost('@fn %s: no such function in the working tree' % nm)
    for key in loops_spec:
        if key not in used_loop:
            raise AnchorLost('@loop %s#%d: no such loop in the working tree' % key)
    text, linemap, line = '', [], 1
    for chunk, it in chunks:
        n = chunk.count('\n')
        if it is not None:
            linemap.append((line, line + n - 1, it.path, it.line, it.name))
        text += chunk
        line += n
    return text, linemap, {'contracted': sorted(used_fn), 'loops_contracted': sorted('%s#%d' % k for k in used_loop if len(k) == 2)}


if __name__ == '__main__':
    import sys
    import weave
    V = os.path.dirname(os.path.dirname(os.path.abspath(__file__)))
    ex = extract(sys.argv[1] if len(sys.argv) > 1 else '/repo')
    fns, loops = weave.parse_spec(open(os.path.join(V, 'contracts/semtok.spec')).read())
    text, lm, info = assemble(ex, open(os.path.join(V, 'contracts/semtok_prelude.rs')).read(), fns, loops)
    out = sys.argv[2] if len(sys.argv) > 2 else '/var/tmp/w/st/unit.rs'
    open(out, 'w').write(text)
    print(ex['notes'], info)
