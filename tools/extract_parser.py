"""Extractor for the parser unit (Verus).

Cuts the grammar functions, the Parser methods, the token-set constants and
the data types they use out of /repo's working tree and applies rewrites
R1-R9 of DESIGN.md section 2.2 - nothing else.  Function bodies are verbatim
except for R1 (T![..] expansion) and R2 (explicit `SyntaxKind::` paths).

Output: a list of Item objects, consumed by weave.py.
"""
import os
import re
from rustcut import Source, AnchorLost, code_mask, match_brace, replace_idents


def norm_ws(t):
    return ' '.join(t.split())


class Item:
    def __init__(self, kind, name, text, path, line, header=None, body=None, owner=None):
        self.kind = kind          # 'fn' | 'const' | 'type' | 'raw'
        self.name = name          # qualified: 'Parser::bump', 'expr_bp', 'STMT_RECOVERY'
        self.text = text          # full rewritten text (for non-fn items)
        self.path = path          # repo-relative source path
        self.line = line          # 1-based line of the item in that file
        self.header = header      # fn: text from 'fn' up to (not incl.) the body '{'
        self.body = body          # fn: text from '{' to matching '}' inclusive
        self.owner = owner        # fn: 'Parser' / 'TokenSet' / 'SyntaxKind' / None


# --------------------------------------------------------------------------
# kind.rs: the def! table

def parse_kind_table(src):
    s, o, c = src.cut_braced(r'^def!\s*\{', 0)
    body = src.text[o + 1:c]
    mask = code_mask(body)
    # remove attributes #[...]
    out = []
    i = 0
    n = len(body)
    while i < n:
        if mask[i] and body[i] == '#' and i + 1 < n and body[i + 1] == '[':
            j = match_brace(body, mask, i + 1, '[', ']')
            i = j + 1
            continue
        if not mask[i] and body[i] == '/' and body[i:i + 2] == '//':
            j = body.find('\n', i)
            i = n if j < 0 else j
            continue
        out.append(body[i])
        i += 1
    rest = ''.join(out)
    entry_rx = re.compile(
        r'\s*([A-Za-z_][A-Za-z0-9_]*)\s*(?:=\s*\[\s*("(?:[^"\\]|\\.)*")\s*\])?\s*(?:@\s*([A-Za-z_][A-Za-z0-9_]*))?\s*,')
    pos = 0
    variants = []   # names in order
    tokens = {}     # token text (as written, e.g. '"fn"') -> variant
    anchors = {}    # anchor -> variant
    while True:
        if not rest[pos:].strip():
            break
        mm = entry_rx.match(rest, pos)
        if not mm:
            raise AnchorLost('kind.rs: cannot parse def! entry near %r' % rest[pos:pos + 60])
        name, tok, anchor = mm.groups()
        variants.append(name)
        if tok is not None:
            tokens[tok] = name
        if anchor is not None:
            anchors[anchor] = name
        pos = mm.end()
    if 'EOF' not in variants or '__LAST' not in variants:
        raise AnchorLost('kind.rs: def! table lacks EOF/__LAST')
    return variants, tokens, anchors


def gen_syntax_kind(variants):
    lines = ['#[derive(Clone, Copy, PartialEq, Eq, Structural)]', '#[repr(u16)]',
             '#[allow(non_camel_case_types)]', 'pub enum SyntaxKind {']
    for v in variants:
        lines.append('    %s,' % v)
    lines.append('}')
    return '\n'.join(lines)


# --------------------------------------------------------------------------
# rewrites R1, R2, R5

T_RX = re.compile(r'\bT!\s*([\[\(\{])')


def rewrite_T(text, tokens):
    """R1: T!["fn"] -> SyntaxKind::FN_KW, exactly what macro_rules! T expands to."""
    while True:
        mask = code_mask(text)
        found = None
        for mm in T_RX.finditer(text):
            if mask[mm.start()]:
                found = mm
                break
        if not found:
            return text
        op = found.group(1)
        cl = {'[': ']', '(': ')', '{': '}'}[op]
        oi = found.end() - 1
        ci = match_brace(text, mask, oi, op, cl)
        tok = text[oi + 1:ci].strip()
        if tok not in tokens:
            raise AnchorLost('T![%s] not in the def! table' % tok)
        text = text[:found.start()] + 'SyntaxKind::' + tokens[tok] + text[ci + 1:]


def rewrite_bare_variants(text, variants):
    """R2: names imported by `use crate::SyntaxKind::{self, *}` made explicit."""
    vs = set(variants)

    def fn(ident, before, after):
        if ident not in vs:
            return None
        b = before.rstrip()
        if b.endswith('::') or b.endswith('.'):
            return None
        if after.lstrip().startswith('::'):
            return None
        return 'SyntaxKind::' + ident
    return replace_idents(text, fn)


def drop_vis(text):
    """R5: visibility qualifiers dropped (single-module file)."""
    mask = code_mask(text)
    out = []
    last = 0
    for mm in re.finditer(r'\bpub(\s*\(\s*(crate|super|self)\s*\))?\s+', text):
        if mask[mm.start()]:
            out.append(text[last:mm.start()])
            last = mm.end()
    out.append(text[last:])
    return ''.join(out)


def reduce_derive(text):
    """R9: derive lists reduced to Clone/Copy."""
    def rep(mm):
        keep = [d for d in re.split(r'\s*,\s*', mm.group(1).strip()) if d in ('Clone', 'Copy')]
        return '#[derive(%s)]' % ', '.join(keep) if keep else ''
    return re.sub(r'#\[derive\(([^)]*)\)\]', rep, text)



# --------------------------------------------------------------------------
# rewrites R11, R12 (Parser::build_tree)

LOCAL_MACRO_RX = re.compile(r'macro_rules!\s*(\w+)\s*\{')


def expand_local_macros(body):
    """R12: a function-local `macro_rules! NAME { ($x: ident) => { BODY }; }` with exactly one rule and one
    `ident` parameter is expanded textually at every `NAME!(ARG)` and its definition is removed - what rustc does.
    (Verus' syntax macro does not look inside macro_rules bodies, so closure contracts could not be attached there.)"""
    notes = []
    while True:
        mask = code_mask(body)
        mm = None
        for cand in LOCAL_MACRO_RX.finditer(body):
            if mask[cand.start()]:
                mm = cand
                break
        if not mm:
            return body, notes
        name = mm.group(1)
        o = mm.end() - 1
        c = match_brace(body, mask, o)
        inner = body[o + 1:c]
        rule = re.match(r'\s*\(\s*\$(\w+)\s*:\s*ident\s*\)\s*=>\s*\{(.*)\}\s*;?\s*$', inner, re.S)
        if not rule:
            raise AnchorLost('local macro %s! is not of the one-rule / one-ident-parameter form' % name)
        param, mbody = rule.group(1), rule.group(2).strip()
        end = c + 1
        while end < len(body) and body[end] in ' \t':
            end += 1
        if end < len(body) and body[end] == '\n':
            end += 1
        ls = body.rfind('\n', 0, mm.start()) + 1
        body = body[:ls] + body[end:]
        n = 0
        while True:
            mask = code_mask(body)
            use = None
            for cand in re.finditer(r'\b%s!\s*\(' % re.escape(name), body):
                if mask[cand.start()]:
                    use = cand
                    break
            if not use:
                break
            uo = use.end() - 1
            uc = match_brace(body, mask, uo, '(', ')')
            arg = body[uo + 1:uc].strip()
            if not re.match(r'^\w+$', arg):
                raise AnchorLost('%s!(..) used with a non-identifier argument' % name)
            body = body[:use.start()] + re.sub(r'\$%s\b' % re.escape(param), arg, mbody) + body[uc + 1:]
            n += 1
        notes.append('local macro %s! expanded at %d sites' % (name, n))


REFPAT_CLOSURE_RX = re.compile(r'\|\s*&\s*(\w+\s*\{[^|{}]*\})\s*\|')


def desugar_ref_pattern_closures(body):
    """R19: a closure whose single parameter is a reference pattern, `|&Pat { a, .. }| EXPR`, becomes
    `|verif_p0| { let Pat { a, .. } = *verif_p0; EXPR }` - the definition of an irrefutable parameter pattern (the pointee
    is Copy in the one place this occurs, Parser::error).  Verus rejects pattern parameters of closures."""
    n = 0
    while True:
        mask = code_mask(body)
        mm = None
        for cand in REFPAT_CLOSURE_RX.finditer(body):
            if mask[cand.start()]:
                mm = cand
                break
        if not mm:
            return body, n
        # the closure body: an expression up to the closing paren of the enclosing call / a top-level comma
        b = mm.end()
        while b < len(body) and body[b].isspace():
            b += 1
        if body[b] == '{':
            e = match_brace(body, mask, b) + 1
            inner = body[b + 1:e - 1]
        else:
            pd, e = 0, b
            while e < len(body):
                if mask[e]:
                    c = body[e]
                    if c in '([{':
                        pd += 1
                    elif c in ')]}':
                        if pd == 0:
                            break
                        pd -= 1
                    elif c in ',;' and pd == 0:
                        break
                e += 1
            inner = body[b:e]
        body = body[:mm.start()] + '|verif_p0| { let %s = *verif_p0; %s }' % (' '.join(mm.group(1).split()), inner.strip()) + body[e:]
        n += 1


TWC_RX = re.compile(r'\(\s*(\w+)\s*\.\.\s*(\w+)\s*\)\s*\.\s*take_while\s*\(')


def rewrite_take_while_count(body):
    """R11: `(A..B).take_while(|&X| E).count()` -> `verif_range_take_while_count(A, B, |X: usize| -> (b: bool) { E })`.
    The helper is an external_body function whose body is the original iterator chain and whose assumed contract is
    the meaning of take_while/count on a range (contracts/parser_stubs.rs); `|&X|` over `&usize` items and `|X: usize|`
    over `usize` items denote the same predicate."""
    n = 0
    while True:
        mask = code_mask(body)
        mm = None
        for cand in TWC_RX.finditer(body):
            if mask[cand.start()]:
                mm = cand
                break
        if not mm:
            return body, n
        po = mm.end() - 1
        pc = match_brace(body, mask, po, '(', ')')
        inner = body[po + 1:pc]
        cm = re.match(r'\s*\|\s*&\s*(\w+)\s*\|\s*(.*)$', inner, re.S)
        tail = re.match(r'\s*\.\s*count\s*\(\s*\)', body[pc + 1:])
        if not cm or not tail:
            raise AnchorLost('take_while chain not of the form (A..B).take_while(|&x| E).count()')
        x, expr = cm.group(1), ' '.join(cm.group(2).split())
        rep = 'verif_range_take_while_count(%s, %s, |%s: usize| -> (b: bool) { %s })' % (mm.group(1), mm.group(2), x, expr)
        body = body[:mm.start()] + rep + body[pc + 1 + tail.end():]
        n += 1

# --------------------------------------------------------------------------

def split_fn(src, start, open_idx, close_idx):
    header = src.text[start:open_idx]
    body = src.text[open_idx:close_idx + 1]
    return header, body


FN_HEAD = r'^[ \t]*(?:pub(?:\([a-z]+\))?\s+)?(?:const\s+)?fn\s+([A-Za-z_][A-Za-z0-9_]*)'


def fns_in(src, depth, start, end):
    """All fn items at brace depth `depth` within [start, end)."""
    res = []
    pos = start
    while True:
        mm = src.find_header(FN_HEAD, depth, pos, end)
        if not mm:
            break
        s, o, c = src.cut_braced(FN_HEAD, depth, mm.start(), end)
        res.append((mm.group(1), s, o, c))
        pos = c + 1
    return res


def strip_lead(s):
    return s.lstrip(' \t')


def extract(repo):
    sx = os.path.join(repo, 'crates/syntax/src')
    rel = lambda f: 'crates/syntax/src/' + f
    kind = Source(os.path.join(sx, 'kind.rs'))
    parser = Source(os.path.join(sx, 'parser.rs'))
    tset = Source(os.path.join(sx, 'token_set.rs'))
    lexer = Source(os.path.join(sx, 'lexer.rs'))
    lib = Source(os.path.join(sx, 'lib.rs'))

    variants, tokens, anchors = parse_kind_table(kind)

    def rw(text):
        return drop_vis(rewrite_bare_variants(rewrite_T(text, tokens), variants))

    items = []
    dropped = []
    rewrites_bt = []
    bt_unextractable = None

    # ---- kind.rs: regenerated enum (R3)
    mm = kind.find_header(r'^def!\s*\{', 0)
    items.append(Item('type', 'SyntaxKind', gen_syntax_kind(variants), rel('kind.rs'), kind.line_of(mm.start())))

    # ---- kind.rs: anchor constants (what `$(const $anchor: Self = Self::$variant;)*` in def! expands to), the
    # kind predicates, and `impl From<SyntaxKind> for rowan::SyntaxKind` (used by the tree builder)
    if anchors:
        items.append(Item('type', 'SyntaxKind::<anchors>', 'impl SyntaxKind {\n%s\n}' % '\n'.join(
            '    const %s: Self = Self::%s;' % (a, v) for a, v in anchors.items()), rel('kind.rs'), kind.line_of(mm.start())))
    s, o, c = kind.cut_braced(r'^impl SyntaxKind\b', 0)
    for nm, fs, fo, fc in fns_in(kind, 1, o + 1, c):
        h, b = split_fn(kind, fs, fo, fc)
        items.append(Item('fn', 'SyntaxKind::' + nm, None, rel('kind.rs'), kind.line_of(fs),
                          header=strip_lead(rw(h)), body=rw(b), owner='SyntaxKind'))
    s, o, c = kind.cut_braced(r'^impl From<SyntaxKind> for rowan::SyntaxKind\b', 0)
    items.append(Item('type', 'From<SyntaxKind> for rowan::SyntaxKind', kind.text[s:c + 1], rel('kind.rs'), kind.line_of(s)))

    # ---- lib.rs: Error, ErrorKind
    for nm, pat in (('Error', r'^pub struct Error\b'), ('ErrorKind', r'^pub enum ErrorKind\b')):
        s, o, c = lib.cut_braced(pat, 0)
        s0 = lib.attrs_start(s)
        items.append(Item('type', nm, reduce_derive(rw(lib.text[s0:c + 1])), rel('lib.rs'), lib.line_of(s)))

    # ---- lexer.rs: LexToken
    s, o, c = lexer.cut_braced(r'^pub struct LexToken\b', 0)
    s0 = lexer.attrs_start(s)
    items.append(Item('type', 'LexToken', reduce_derive(rw(lexer.text[s0:c + 1])), rel('lexer.rs'), lexer.line_of(s)))

    # ---- token_set.rs
    s, e = tset.cut_semi(r'^pub\(crate\) struct TokenSet\b', 0)
    s0 = tset.attrs_start(s)
    items.append(Item('type', 'TokenSet', reduce_derive(rw(tset.text[s0:e + 1])), rel('token_set.rs'), tset.line_of(s)))
    s, o, c = tset.cut_braced(r'^impl TokenSet\b', 0)
    for nm, fs, fo, fc in fns_in(tset, 1, o + 1, c):
        h, b = split_fn(tset, fs, fo, fc)
        items.append(Item('fn', 'TokenSet::' + nm, None, rel('token_set.rs'), tset.line_of(fs),
                          header=strip_lead(rw(h)), body=rw(b), owner='TokenSet'))
    for nm, fs, fo, fc in fns_in(tset, 0, 0, len(tset.text)):
        if nm.startswith('token_set_works'):
            continue  # #[test]
        h, b = split_fn(tset, fs, fo, fc)
        items.append(Item('fn', nm, None, rel('token_set.rs'), tset.line_of(fs),
                          header=strip_lead(rw(h)), body=rw(b)))

    # ---- parser.rs: constants (R4 is applied by the weaver, which needs the parsed form)
    pos = 0
    while True:
        mm = parser.find_header(r'^const\s+([A-Z_0-9]+)\s*:\s*TokenSet\s*=', 0, pos)
        if not mm:
            break
        s, e = parser.cut_semi(r'^const\s+([A-Z_0-9]+)\s*:\s*TokenSet\s*=', 0, mm.start())
        init = parser.text[mm.end():e]
        items.append(Item('const', mm.group(1), rw(init).strip(), rel('parser.rs'), parser.line_of(s)))
        pos = e + 1

    # ---- parser.rs: plain integer constants (e.g. MAX_DEPTH), verbatim
    pos = 0
    while True:
        mm = parser.find_header(r'^const\s+([A-Z_0-9]+)\s*:\s*(usize|u32|u8|u16|u64)\s*=', 0, pos)
        if not mm:
            break
        s, e = parser.cut_semi(r'^const\s+([A-Z_0-9]+)\s*:\s*(usize|u32|u8|u16|u64)\s*=', 0, mm.start())
        items.append(Item('type', mm.group(1), rw(parser.text[s:e + 1]), rel('parser.rs'), parser.line_of(s)))
        pos = e + 1

    # ---- parser.rs: types
    for nm, pat in (('Event', r'^enum Event\b'), ('MarkOpened', r'^struct MarkOpened\b'),
                    ('MarkClosed', r'^struct MarkClosed\b'), ('Parser', r'^struct Parser\b')):
        s, o, c = parser.cut_braced(pat, 0)
        s0 = parser.attrs_start(s)
        items.append(Item('type', nm, reduce_derive(rw(parser.text[s0:c + 1])), rel('parser.rs'), parser.line_of(s)))

    s, o, c = parser.cut_braced(r'^pub struct Parse\b', 0)
    items.append(Item('type', 'Parse', rw(parser.text[s:c + 1]), rel('parser.rs'), parser.line_of(s)))

    # ---- parser.rs: impl Parser
    s, o, c = parser.cut_braced(r"^impl<'i> Parser<'i>", 0)
    impl_header = parser.text[s:o].strip()
    for nm, fs, fo, fc in fns_in(parser, 1, o + 1, c):
        h, b = split_fn(parser, fs, fo, fc)
        if nm == 'error':
            b, n19 = desugar_ref_pattern_closures(b)
            if n19:
                rewrites_bt.append('Parser::error: %d closure(s) with a reference-pattern parameter desugared (R19)' % n19)
        if nm == 'build_tree':
            try:
                b, notes = expand_local_macros(b)
                b, ntw = rewrite_take_while_count(b)
                rewrites_bt = notes + ['%d take_while/count chains rewritten to verif_range_take_while_count (R11)' % ntw]
            except AnchorLost as e:
                bt_unextractable = str(e)
        items.append(Item('fn', 'Parser::' + nm, None, rel('parser.rs'), parser.line_of(fs),
                          header=strip_lead(rw(h)), body=rw(b), owner='Parser'))

    # ---- parser.rs: impl SyntaxKind
    s, o, c = parser.cut_braced(r'^impl SyntaxKind\b', 0)
    for nm, fs, fo, fc in fns_in(parser, 1, o + 1, c):
        h, b = split_fn(parser, fs, fo, fc)
        items.append(Item('fn', 'SyntaxKind::' + nm, None, rel('parser.rs'), parser.line_of(fs),
                          header=strip_lead(rw(h)), body=rw(b), owner='SyntaxKind'))

    # ---- parser.rs: free functions
    for nm, fs, fo, fc in fns_in(parser, 0, 0, len(parser.text)):
        if nm == 'parse_module':
            dropped.append('parse_module (R6: lexer + iterator glue; assumption iv)')
            continue
        h, b = split_fn(parser, fs, fo, fc)
        items.append(Item('fn', nm, None, rel('parser.rs'), parser.line_of(fs),
                          header=strip_lead(rw(h)), body=rw(b)))
    dropped.append('impl Parse (R6: rowan red tree accessors)')

    # ---- R4b: function-local `const X: TokenSet = E;` hoisted to module level (Verus has no
    # exec-mode constants inside function bodies); a name clash stops the run.
    local_rx = re.compile(r'^[ \t]*const\s+([A-Z_0-9]+)\s*:\s*TokenSet\s*=\s*(.*?);[ \t]*\n', re.M | re.S)
    taken = set(it.name for it in items)
    hoisted = []
    for it in items:
        if it.kind != 'fn':
            continue
        while True:
            mm = local_rx.search(it.body)
            if not mm:
                break
            if mm.group(1) in taken:
                raise AnchorLost('function-local constant %s clashes with a module-level name' % mm.group(1))
            taken.add(mm.group(1))
            hoisted.append(Item('const', mm.group(1), mm.group(2).strip(), it.path, it.line))
            it.body = it.body[:mm.start()] + it.body[mm.end():]
    items.extend(hoisted)

    # ---- R10: the progress-guard fuel `fuel: Cell<u32>` becomes a plain `fuel: u32`; `self.fuel.get()` -> `self.fuel`,
    # `self.fuel.set(E);` -> `self.fuel = E;`, and every Parser method that (transitively, through `self.`-calls) writes
    # the fuel and has a `&self` receiver gets `&mut self`.  Cell is interior mutability for one Copy value in
    # single-threaded code, so this changes no behaviour; it makes the fuel visible to Verus, which cannot
    # specify mutation through `&self`.  Call sites are untouched.
    methods = [it for it in items if it.kind == 'fn' and it.owner == 'Parser']
    fuel_reset = None
    if any(it.kind == 'type' and it.name == 'Parser' and re.search(r'\bfuel\s*:\s*Cell<u32>', it.text) for it in items):
        for it in items:
            if it.kind == 'type' and it.name == 'Parser':
                it.text = re.sub(r'\bfuel\s*:\s*Cell<u32>', 'fuel: u32', it.text)
        muts = set(it.name.split('::')[1] for it in methods if '.fuel.set(' in it.body)
        grew = True
        while grew:
            grew = False
            for it in methods:
                nm = it.name.split('::')[1]
                if nm not in muts and any(re.search(r'self\s*\.\s*%s\s*\(' % m, it.body) for m in muts):
                    muts.add(nm)
                    grew = True
        for it in methods:
            nm = it.name.split('::')[1]
            if nm == 'bump':
                mm = re.search(r'self\.fuel\.set\(\s*(\d+|[A-Z_][A-Z_0-9]*)\s*\)', it.body)
                if mm and mm.group(1).isdigit():
                    fuel_reset = int(mm.group(1))
                elif mm:
                    # a named integer constant: its literal initialiser
                    cm = [c for c in items if c.kind == 'type' and c.name == mm.group(1)]
                    lm_ = re.search(r'=\s*(\d[\d_]*)\s*;', cm[0].text) if cm else None
                    if lm_:
                        fuel_reset = int(lm_.group(1).replace('_', ''))
            it.body = re.sub(r'self\.fuel\.set\(([^;]*)\);', r'self.fuel = \1;', it.body).replace('self.fuel.get()', 'self.fuel')
            if nm in muts and re.search(r'\(\s*&self\b', it.header):
                it.header = re.sub(r'\(\s*&self\b', '(&mut self', it.header)
        if fuel_reset is None:
            raise AnchorLost('Parser::bump does not reset the fuel with a literal')
    else:
        raise AnchorLost('struct Parser has no `fuel: Cell<u32>` field')

    # ---- parse_module: only the `Parser { .. }` literal is taken (for the generated top-level lemma)
    s_, o_, c_ = parser.cut_braced(r'^pub fn parse_module\b', 0)
    pm = parser.text[o_:c_ + 1]
    lm = re.search(r'let\s+mut\s+p\s*=\s*(Parser\s*\{)', pm)
    if not lm:
        raise AnchorLost('parse_module: `let mut p = Parser { .. }` not found')
    bo = o_ + lm.end(1) - 1
    bc = match_brace(parser.text, parser.mask, bo)
    parser_literal = re.sub(r'\bfuel\s*:\s*Cell::new\(([^)]*)\)', r'fuel: \1', rw(parser.text[o_ + lm.start(1):bc + 1]))
    tail = norm_ws(parser.text[bc + 1:c_])
    if tail != '; module(&mut p); p.build_tree()':
        raise AnchorLost('parse_module: tail is not `module(&mut p); p.build_tree()` but %r' % tail)

    return {'fuel_reset': fuel_reset, 'parser_literal': parser_literal, 'parser_literal_line': parser.line_of(o_ + lm.start(1)),
            'items': items, 'variants': variants, 'tokens': tokens, 'anchors': anchors,
            'impl_parser_header': impl_header, 'dropped': dropped, 'rewrites_build_tree': rewrites_bt,
            'build_tree_unextractable': bt_unextractable}


if __name__ == '__main__':
    import sys
    r = extract(sys.argv[1] if len(sys.argv) > 1 else '/repo')
    for it in r['items']:
        print(it.kind, it.name, it.path, it.line)
