"""Build and run the native witness driver against a scratch copy of the working tree."""
import json
import os
import re
import shutil
from common import VERIF, REPO, scratch, run, Undecided

DEEP = [  # (name, prefix, unit, suffix_unit) structured deep-nesting inputs
    ('list-unclosed', 'fn f() { ', '[', ''),
    ('block-unclosed', 'fn f() ', '{ ', ''),
    ('case-unclosed', 'fn f() { ', 'case x { a -> ', ''),
    ('call-unclosed', 'fn f() { ', 'g(', ''),
    ('tuple-unclosed', 'fn f() { ', '#(', ''),
    ('lambda-unclosed', 'fn f() { ', 'fn() { ', ''),
    ('neg-prefix', 'fn f() { ', '- ', ''),
    ('bang-prefix', 'fn f() { ', '! ', ''),
    ('pattern-neg', 'fn f() { let ', '- ', ''),
    ('pattern-concat', 'fn f() { let ', '"a" <> ', ''),
    ('type-fn-ret', 'const c: ', 'fn() -> ', ''),
    ('pattern-list-unclosed', 'fn f() { let ', '[', ''),
    ('pattern-tuple-unclosed', 'fn f() { let ', '#(', ''),
    ('type-tuple-unclosed', 'const c: ', '#(', ''),
    ('type-fn-unclosed', 'const c: ', 'fn(', ''),
    ('type-app-unclosed', 'const c: ', 'List(', ''),
    ('block-balanced', 'fn f() ', '{ ', '} '),
    ('list-balanced', 'fn f() { ', '[', ']'),
    ('call-balanced', 'fn f() { ', 'g(', ')'),
    ('pattern-balanced', 'fn f() { let ', '[', ']'),
    ('type-balanced', 'const c: ', '#(', ')'),
]


# nesting that mixes the three guarded categories (expressions, patterns, type expressions): the bound on the call
# stack and the progress-guard fuel must hold for their SUM, not per category
MIXED = {
    'list-unclosed-then-item': lambda n: 'fn f() {\n  ' + '[' * n + '\n}\n\npub fn g() { 1 }\n',
    'call-unclosed-then-item': lambda n: 'fn f() {\n  ' + 'g(' * n + '\n}\n\npub fn g() { 1 }\n',
    'block-unclosed-then-item': lambda n: 'fn f() ' + '{ ' * n + '\n}\n\npub fn g() { 1 }\n',
    'mixed-call-then-fn-type': lambda n: 'fn main() {\n  ' + 'f(' * n + 'fn(a: ' + 'fn(' * n,
    'mixed-block-then-pattern': lambda n: 'fn f() ' + '{ ' * n + 'let ' + '[' * n,
    'mixed-list-then-lambda-type': lambda n: 'fn f() { ' + '[' * n + 'fn(a: ' + '#(' * n,
    'mixed-case-pattern-type': lambda n: 'fn f() { ' + 'case x { a -> ' * (n // 2) + 'let ' + '#(' * n + 'a: ' + 'fn(' * n,
}
DEEP += [(nm, None, None, None) for nm in MIXED]


def deep_input(name, n):
    if name in MIXED:
        return MIXED[name](n)
    for nm, pre, unit, suf in DEEP:
        if nm == name:
            return pre + unit * n + ('x' if suf else '') + suf * n + (' = 1 }' if 'pattern' in nm and suf else '')
    raise KeyError(name)


_driver = {}
_driver_lock = __import__('threading').Lock()


def build_driver(repo=REPO):
    with _driver_lock:
        return _build_driver(repo)


def _build_driver(repo=REPO):
    if repo in _driver:
        return _driver[repo]
    d = os.path.join(scratch(), 'wit%d' % len(_driver))
    os.makedirs(os.path.join(d, 'crates'))
    shutil.copytree(os.path.join(repo, 'crates/syntax'), os.path.join(d, 'crates/syntax'),
                    ignore=shutil.ignore_patterns('target'))
    shutil.copytree(os.path.join(VERIF, 'tools/witness_parser/src'), os.path.join(d, 'crates/verif_witness/src'))
    shutil.copy(os.path.join(VERIF, 'tools/witness_parser/Cargo.toml.in'), os.path.join(d, 'crates/verif_witness/Cargo.toml'))
    top = open(os.path.join(repo, 'Cargo.toml')).read()
    top2 = re.sub(r'members\s*=\s*\[[^\]]*\]', 'members = ["crates/syntax", "crates/verif_witness"]', top, count=1, flags=re.S)
    if top2 == top:
        raise Undecided('witness driver: workspace members list not found in Cargo.toml')
    open(os.path.join(d, 'Cargo.toml'), 'w').write(top2)
    shutil.copy(os.path.join(repo, 'Cargo.lock'), os.path.join(d, 'Cargo.lock'))
    rc, out, err, wall = run(['cargo', 'build', '--offline', '-q', '-p', 'verif_witness'], cwd=d, timeout=900,
                             env={'CARGO_TARGET_DIR': os.path.join(d, 'target')})
    if rc != 0:
        raise Undecided('witness driver does not build against the working tree: ' + (err or '')[-800:])
    _driver[repo] = os.path.join(d, 'target/debug/verif_witness')
    return _driver[repo]


def parse_result(rc, out):
    last = None
    for line in out.strip().split('\n'):
        line = line.strip()
        if line.startswith('{'):
            try:
                last = json.loads(line)
            except ValueError:
                pass
    return last


def run_one(text, repo=REPO, timeout=60):
    """-> None if the input parses fine, else {'kind','input','observed'}"""
    drv = build_driver(repo)
    f = os.path.join(scratch(), 'input.%d.txt' % os.getpid())
    open(f, 'w').write(text)
    rc, out, err, wall = run([drv, 'one', f], timeout=timeout)
    if rc == 0:
        return None
    if rc == 3:
        r = parse_result(rc, out)
        if r:
            return r
    if rc is None:
        return {'kind': 'hang', 'input': text, 'observed': 'driver killed after %ds' % timeout}
    if rc < 0 or rc in (134, 139):
        return {'kind': 'abort', 'input': text, 'observed': 'process died with signal %s (stack overflow in a 2 MiB thread)' % (-rc if rc < 0 else rc - 128)}
    raise Undecided('witness driver failed unexpectedly rc=%s: %s' % (rc, (err or '')[-300:]))


def enumerate_inputs(k, budget_s, seed=0, repo=REPO, kinds=None):
    drv = build_driver(repo)
    rc, out, err, wall = run([drv, 'enumerate', str(k), str(budget_s), str(seed)] + ([','.join(kinds)] if kinds else []), timeout=budget_s + 120)
    r = parse_result(rc, out)
    if rc == 0:
        return None, (r or {}).get('inputs', 0)
    if rc == 3 and r:
        return r, None
    if rc is not None and (rc < 0 or rc in (134, 139)):
        return {'kind': 'abort', 'input': '<unknown: driver died during enumeration>', 'observed': 'signal'}, None
    return None, 0


def deep_check(ns=(105, 150), kinds=None, repo=REPO):
    """the structured deep-nesting inputs only (past the parser's depth limit, with tokens left over where the limit is hit)
    -> (witness | None, number of inputs run)"""
    cnt = 0
    for n in ns:
        for nm, _, _, _ in DEEP:
            w = run_one(deep_input(nm, n), repo)
            cnt += 1
            if w and kinds and w['kind'] not in kinds:
                w = None
            if w:
                w['input_recipe'] = '%s x %d' % (nm, n)
                if len(w['input']) > 400:
                    w['input'] = w['input'][:200] + ' ...(%d chars; regenerate from input_recipe)' % len(w['input'])
                return w, cnt
    return None, cnt


def search(k, budget_s, deep_ns=(150, 400, 3000, 120000), seed=0, repo=REPO, kinds=None):
    """Witness search: deep-nesting inputs first, then token-class enumeration.
    -> witness dict or None"""
    for n in deep_ns:
        for nm, _, _, _ in DEEP:
            w = run_one(deep_input(nm, n), repo)
            if w and kinds and w['kind'] not in kinds:
                w = None
            if w:
                w['input_recipe'] = '%s x %d' % (nm, n)
                if len(w['input']) > 400:
                    w['input'] = w['input'][:200] + ' ...(%d chars; regenerate from input_recipe)' % len(w['input'])
                return w
    w, n = enumerate_inputs(k, budget_s, seed, repo, kinds)
    return w
