"""Shared plumbing: scratch directories, subprocesses, evidence, violations, known findings."""
import atexit
import hashlib
import json
import os
import shutil
import signal
import subprocess
import sys
import time

VERIF = os.path.dirname(os.path.dirname(os.path.abspath(__file__)))
REPO = os.environ.get('VERIF_REPO', '/repo')

_scratch = None
_children = set()


def _kill_children(*_a):
    for pid in list(_children):
        try:
            os.killpg(pid, signal.SIGKILL)
        except (ProcessLookupError, PermissionError):
            pass
    if _a:   # called as a signal handler
        if _scratch and not os.environ.get('VERIF_KEEP'):
            shutil.rmtree(_scratch, ignore_errors=True)
        os._exit(143)


atexit.register(_kill_children)
signal.signal(signal.SIGTERM, _kill_children)
signal.signal(signal.SIGINT, _kill_children)


def scratch():
    """Per-run scratch directory, outside /repo, /verif and /tmp; removed at exit."""
    global _scratch
    if _scratch is None:
        base = os.environ.get('VERIF_SCRATCH', '/var/tmp')
        os.makedirs(base, exist_ok=True)
        _scratch = os.path.join(base, 'verif-scratch.%d' % os.getpid())
        shutil.rmtree(_scratch, ignore_errors=True)
        os.makedirs(_scratch)
        if not os.environ.get('VERIF_KEEP'):
            atexit.register(lambda: shutil.rmtree(_scratch, ignore_errors=True))
    return _scratch


def run(cmd, cwd=None, timeout=None, env=None, stdin=None):
    """Run a command in its own process group; on timeout kill the whole group.
    -> (returncode | None on timeout, stdout, stderr, wall_s)"""
    t0 = time.time()
    e = dict(os.environ)
    e['CARGO_NET_OFFLINE'] = 'true'
    if env:
        e.update(env)
    p = subprocess.Popen(cmd, cwd=cwd, env=e, stdout=subprocess.PIPE, stderr=subprocess.PIPE,
                         stdin=subprocess.DEVNULL if stdin is None else subprocess.PIPE,
                         start_new_session=True, text=True)
    _children.add(p.pid)
    try:
        out, err = p.communicate(stdin, timeout=timeout)
        _children.discard(p.pid)
        return p.returncode, out, err, time.time() - t0
    except subprocess.TimeoutExpired:
        try:
            os.killpg(p.pid, signal.SIGKILL)
        except ProcessLookupError:
            pass
        out, err = p.communicate()
        return None, out, err, time.time() - t0


def seed():
    try:
        return int(os.environ.get('VERIF_SEED', '0'))
    except ValueError:
        return 0


def write_evidence(prop, tier, level, coverage, assumptions, wall_s, violations, extra=None):
    ev = {'property_id': prop, 'tier': tier, 'seed': seed(), 'level': level, 'coverage': coverage,
          'assumptions': assumptions, 'wall_s': round(wall_s, 2), 'violations': violations}
    if extra:
        ev.update(extra)
    # VERIF_EVIDENCE_DIR: development aid for seeded-change trials on a scratch tree (VERIF_REPO), so that they do not
    # overwrite the evidence of the real tree; the registered commands never set it
    d = os.environ.get('VERIF_EVIDENCE_DIR') or os.path.join(VERIF, 'evidence')
    os.makedirs(d, exist_ok=True)
    tmp = os.path.join(d, '%s.json.tmp' % prop)
    with open(tmp, 'w') as f:
        json.dump(ev, f, indent=1, sort_keys=True)
        f.write('\n')
    os.replace(tmp, os.path.join(d, '%s.json' % prop))


def write_replay(prop, obligation, repo_location, verifier, verifier_output, witness, how_to_replay):
    d = os.path.join(VERIF, 'replay')
    os.makedirs(d, exist_ok=True)
    h = hashlib.sha1((prop + '|' + obligation).encode()).hexdigest()[:10]
    path = os.path.join(d, '%s-%s.json' % (prop, h))
    with open(path, 'w') as f:
        json.dump({'property': prop, 'obligation': obligation, 'repo_location': repo_location,
                   'verifier': verifier, 'verifier_output': verifier_output, 'witness': witness,
                   'how_to_replay': how_to_replay}, f, indent=1)
        f.write('\n')
    return path


def load_known_findings():
    p = os.path.join(VERIF, 'known_findings.json')
    if not os.path.exists(p):
        return {'findings': [], 'fixed': []}
    return json.load(open(p))


class Undecided(Exception):
    """The run could not decide the property (tool limit, lost anchor, build error): exit 2."""
    pass


def norm(s):
    """Normalise source text for obligation ids: collapse whitespace."""
    return ' '.join(s.split())


def finish(prop, violations, known_lines, undecided_msg=None):
    """Print the result lines and exit with the right code.
    violations: list of (replay_path, has_witness)"""
    for line in known_lines:
        print('KNOWN-FINDING: property=%s %s' % (prop, line))
    if undecided_msg:
        print('UNDECIDED property=%s %s' % (prop, undecided_msg))
        sys.stdout.flush()
        sys.exit(2)
    for path, has_witness in violations:
        print('VIOLATION property=%s replay=%s%s' % (prop, path, '' if has_witness else ' no-failing-input-found'))
    sys.stdout.flush()
    sys.exit(1 if violations else 0)
