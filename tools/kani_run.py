"""Run Kani harnesses on per-run copies / extractions of the real code and classify the output."""
import concurrent.futures as cf
import os
import re
import shutil
from common import run, Undecided, REPO, VERIF

CHECK_RX = re.compile(r'^Check (\d+): (\S+)\n\t - Status: (\w+)\n\t - Description: "(.*)"\n\t - Location: (.*)$', re.M)


def standalone_syntax_crate(repo, dest, harness_files):
    """The whole crates/syntax directory copied as a stand-alone package (workspace-inherited
    manifest keys filled in); harness text is appended to the COPY of parser.rs inside
    `#[cfg(kani)] mod verif_kani`, so that harnesses see private items.  No source is rewritten."""
    shutil.copytree(os.path.join(repo, 'crates/syntax'), dest, ignore=shutil.ignore_patterns('target', 'benches', 'test_data'))
    m = open(os.path.join(dest, 'Cargo.toml')).read()
    ws = open(os.path.join(repo, 'Cargo.toml')).read()

    def wsval(key, default):
        mm = re.search(r'^%s\s*=\s*"([^"]*)"' % re.escape(key), ws, re.M)
        return mm.group(1) if mm else default
    m = re.sub(r'^rust-version\.workspace\s*=\s*true\n', '', m, flags=re.M)
    m = re.sub(r'^version\.workspace\s*=\s*true', 'version = "%s"' % wsval('version', '0.1.0'), m, flags=re.M)
    m = re.sub(r'^edition\.workspace\s*=\s*true', 'edition = "%s"' % wsval('edition', '2021'), m, flags=re.M)
    m = re.sub(r'^license\.workspace\s*=\s*true', 'license = "%s"' % wsval('license', 'MIT'), m, flags=re.M)
    m = re.sub(r'\[\[bench\]\].*?(?=\n\[|\Z)', '', m, flags=re.S)
    if 'workspace = true' in m:
        raise Undecided('crates/syntax/Cargo.toml inherits a workspace key this framework does not know')
    m += '\n[workspace]\n'
    open(os.path.join(dest, 'Cargo.toml'), 'w').write(m)
    shutil.copy(os.path.join(repo, 'Cargo.lock'), os.path.join(dest, 'Cargo.lock'))
    text = ''.join(open(f).read() + '\n' for f in harness_files)
    with open(os.path.join(dest, 'src/parser.rs'), 'a') as f:
        f.write('\n#[cfg(kani)]\n#[allow(unused, non_snake_case)]\nmod verif_kani {\nuse super::*;\n' + text + '\n}\n')
    return dest


def parse_playback(out):
    """concrete values printed by --concrete-playback=print, in kani::any() order"""
    vals = []
    mm = re.search(r'let concrete_vals: Vec<Vec<u8>> = vec!\[(.*?)\n\s*\];', out, re.S)
    if not mm:
        return None
    for v in re.finditer(r'vec!\[([0-9, ]*)\]', mm.group(1)):
        vals.append([int(x) for x in v.group(1).split(',') if x.strip()])
    return vals


def cargo_kani(crate_dir, harness, flags=(), timeout=1800, playback=False, target_dir=None):
    cmd = ['cargo', 'kani', '--harness', harness, '--exact'] + list(flags)
    if playback:
        cmd += ['-Z', 'concrete-playback', '--concrete-playback=print']
    env = {'CARGO_TARGET_DIR': target_dir} if target_dir else None
    rc, out, err, wall = run(cmd, cwd=crate_dir, timeout=timeout, env=env)
    res = {'harness': harness, 'cmd': ' '.join(cmd), 'wall_s': round(wall, 1), 'rc': rc, 'status': None, 'failed_checks': [],
           'checks': 0, 'covers': None, 'raw_tail': (out or '')[-3000:] + (err or '')[-1500:]}
    if rc is None:
        res['status'] = 'TIMEOUT'
        return res
    text = out + '\n' + err
    checks = CHECK_RX.findall(out)
    res['checks'] = len(checks)
    mm = re.search(r'\*\* (\d+) of (\d+) failed', out)
    if mm:
        res['n_failed'], res['n_checks'] = int(mm.group(1)), int(mm.group(2))
    mm = re.search(r'\*\* (\d+) of (\d+) cover properties satisfied', out)
    if mm:
        res['covers'] = (int(mm.group(1)), int(mm.group(2)))
    res['unsat_covers'] = [(d, loc) for (_, name, st, d, loc) in checks if '.cover.' in name and st in ('UNSATISFIABLE', 'UNREACHABLE')]
    mm = re.search(r'Verification Time: ([0-9.]+)s', out)
    if mm:
        res['cbmc_s'] = float(mm.group(1))
    res['stubs'] = re.findall(r'- Stub: (.*)', text)
    v = re.search(r'VERIFICATION:- (SUCCESSFUL|FAILED)', out)
    if not v:
        res['status'] = 'ERROR'
        return res
    if v.group(1) == 'SUCCESSFUL':
        res['status'] = 'SUCCESSFUL'
        return res
    failed = [(name, d, loc) for (_, name, st, d, loc) in checks if st == 'FAILURE' and 'unwinding assertion' not in d]
    res['unwinding_failures'] = sum(1 for (_, name, st, d, loc) in checks if st == 'FAILURE' and 'unwinding assertion' in d)
    if not failed or 'CBMC failed' in text or 'out of memory' in text.lower():
        # killed / OOM / internal error: undecided, never a violation
        res['status'] = 'ERROR'
        return res
    res['status'] = 'FAILED'
    res['failed_checks'] = [{'name': n, 'description': d.strip('"'), 'location': loc} for n, d, loc in failed]
    if playback:
        res['playback'] = parse_playback(out)
    return res


def run_many(crate_dir, harnesses, flags=(), timeout=1800, jobs=8, playback=False):
    """Warm the build once, then run each harness in its own `cargo kani --harness` process."""
    rc, out, err, wall = run(['cargo', 'kani', '--only-codegen'] + [f for f in flags if f in ('-Z', 'stubbing', 'function-contracts', 'loop-contracts', 'quantifiers') or f.startswith('-Z')],
                             cwd=crate_dir, timeout=1800)
    if rc != 0:
        raise Undecided('harness crate does not build under Kani: ' + ((err or '') + (out or ''))[-1500:])
    results = []
    with cf.ThreadPoolExecutor(max_workers=jobs) as pool:
        futs = [pool.submit(cargo_kani, crate_dir, h, flags, timeout, playback) for h in harnesses]
        for f in futs:
            results.append(f.result())
    return results


PLAYBACK_BLOCK_RX = re.compile(
    r'/// Check for `(\w+)`: "([^\n]*)"[ \t]*\n(?:[ \t]*///[^\n]*\n|[ \t]*\n)*[ \t]*#\[test\][ \t]*\n[ \t]*fn (kani_concrete_playback_\w+)\(\) \{(.*?)\n[ \t]*\}[ \t]*\n', re.S)


def playback_failure(crate_dir, harness, flags=(), timeout=1800):
    """Counterexample -> native replay on the real code.
    Re-runs the failed harness with --concrete-playback=print, takes the generated #[test]s that
    belong to failed (non-cover) checks, appends them to the crate copy and executes them natively
    with `cargo kani playback`.  -> list of {check, description, test_name, test_source, concrete_vals,
    native: 'FAILED: <panic message>' | 'passed' | 'not-run'}"""
    cmd = ['cargo', 'kani', '--harness', harness, '--exact'] + list(flags) + ['-Z', 'concrete-playback', '--concrete-playback=print']
    rc, out, err, wall = run(cmd, cwd=crate_dir, timeout=timeout)
    if rc is None:
        return []
    tests = []
    for mm in PLAYBACK_BLOCK_RX.finditer(out):
        kind, desc, name, body = mm.groups()
        if kind == 'cover':
            continue
        vals = [[int(x) for x in v.group(1).split(',') if x.strip()] for v in re.finditer(r'vec!\[([0-9, ]*)\]', body.split('vec![', 1)[1] if 'vec![' in body else '')]
        src = '#[test]\nfn %s() {%s\n}\n' % (name, body)
        tests.append({'check': kind, 'description': desc.strip('"'), 'test_name': name, 'test_source': src, 'concrete_vals': vals, 'native': 'not-run'})
    if not tests:
        return []
    run_playback_tests(crate_dir, tests)
    return tests


def run_playback_tests(crate_dir, tests, timeout=1800):
    """Append the tests to the verif_kani module of the crate copy and run them natively."""
    target = None
    for cand in ('src/parser.rs', 'src/lib.rs', 'src/main.rs'):
        p = os.path.join(crate_dir, cand)
        if os.path.exists(p) and 'mod verif_kani' in open(p).read():
            target = p
            break
    if not target:
        return
    s = open(target).read()
    from rustcut import code_mask, match_brace
    mo = s.index('mod verif_kani {') + len('mod verif_kani')
    mo = s.index('{', mo)
    idx = match_brace(s, code_mask(s), mo)
    add = '\n'.join(t['test_source'] for t in tests if t['test_name'] not in s)
    open(target, 'w').write(s[:idx] + add + '\n' + s[idx:])
    for t in tests:
        rc, out, err, wall = run(['cargo', 'kani', 'playback', '-Z', 'concrete-playback', '--', t['test_name']], cwd=crate_dir, timeout=timeout)
        text = (out or '') + (err or '')
        if rc is None:
            t['native'] = 'timeout'
        elif re.search(r'test result: FAILED', text):
            mm = re.search(r"panicked at [^\n]*\n([^\n]*)", text)
            t['native'] = 'FAILED: ' + (mm.group(1).strip() if mm else 'test failed')
        elif re.search(r'test result: ok\. [1-9]', text):
            t['native'] = 'passed'
        else:
            t['native'] = 'not-run: ' + text[-300:]
