"""Weaver: puts contracts from contracts/*.spec onto the extracted items and
assembles a single-file Verus unit.

Anchors are names (function, function#loop-ordinal), never line numbers.
"""
import re
from rustcut import AnchorLost, code_mask, match_brace

CLAUSE_KEYS = ('requires', 'ensures', 'decreases', 'invariant', 'invariant_except_break',
               'proof_entry', 'proof_loop_entry', 'external_body', 'loop_ensures', 'opaque_body', 'fuel',
               'attr', 'annotate', 'iter_name', 'proof', 'returns', 'ensures_optional', 'ghost', 'ghost_entry')


class SpecError(Exception):
    pass


class Loops(dict):
    """loops[(fn, k)] = {clause: text}; .closures[(fn, k)] = {clause: text}; .hints[fn] = [(where, target, text)]"""
    def __init__(self):
        dict.__init__(self)
        self.closures = {}
        self.hints = {}
        self.names = {}            # names[fn] = [(placeholder, kind, argument)]
        self.dropped_optional = set()   # ids of optional clauses pruned so far (Houdini), set by the caller between rounds


def parse_spec(text):
    """-> (fns, loops).  fns[name] = {clause: text}, loops[(name, k)] = {clause: text};
    closure contracts and proof hints ride on the `loops` object (see class Loops)"""
    fns, loops = {}, Loops()
    cur = None
    key = None
    for raw in text.split('\n'):
        line = raw.split('#!')[0].rstrip()   # '#!' starts a comment in .spec files
        if not line.strip():
            continue
        st = line.strip()
        if st.startswith('@fn '):
            name = st[4:].strip()
            cur = fns.setdefault(name, {})
            key = None
            continue
        if st.startswith('@loop '):
            nm, k = st[6:].strip().split('#')
            cur = loops.setdefault((nm, int(k)), {})
            key = None
            continue
        if st.startswith('@closure '):
            nm, k = st[9:].strip().split('#')
            cur = loops.closures.setdefault((nm, int(k)), {})
            key = None
            continue
        if st.startswith('@names '):
            cur = None
            key = None
            names_fn = st[7:].strip()
            loops.names.setdefault(names_fn, [])
            continue
        if cur is None and st.startswith('$'):
            # inside an @names section:  $raw = let self\.tokens_raw   |   $n = closure 0 param 0   |   $ev = loopvar 1
            ph, _, rhs = st.partition('=')
            kind, _, arg = rhs.strip().partition(' ')
            loops.names[names_fn].append((ph.strip(), kind, arg.strip()))
            continue
        if st.startswith('@hint '):
            # @hint FN before|after CALLEE[#k] | loop#k
            parts = st[6:].split()
            if len(parts) != 3 or parts[1] not in ('before', 'after'):
                raise SpecError('malformed @hint line: ' + st)
            cur = {}
            loops.hints.setdefault(parts[0], []).append((parts[1], parts[2], cur))
            key = None
            continue
        if cur is None:
            raise SpecError('clause outside @fn/@loop: ' + st)
        first = st.split(None, 1)[0]
        if first in CLAUSE_KEYS:
            key = first
            rest = st[len(first):].strip()
            cur[key] = (cur.get(key, '') + ' ' + rest).strip() if key in cur else rest
        else:
            if key is None:
                raise SpecError('continuation without clause: ' + st)
            cur[key] = cur[key] + ' ' + st
    return fns, loops


def name_return(header):
    """`fn f(..) -> T` => `fn f(..) -> (r: T)`"""
    mask = code_mask(header)
    # find the parameter list's closing paren (the first `(` after `fn NAME`, not the one of `pub(crate)`)
    fm = re.search(r'\bfn\s+\w+', header)
    i = header.find('(', fm.end() if fm else 0)
    if i < 0:
        raise AnchorLost('fn header without parameter list: ' + header)
    j = match_brace(header, mask, i, '(', ')')
    rest = header[j + 1:]
    mm = re.match(r'\s*->\s*(.+?)\s*$', rest, re.S)
    if not mm:
        return header.rstrip(), False
    return header[:j + 1] + ' -> (r: ' + mm.group(1) + ')', True


LOOP_KW = re.compile(r'\b(while|loop|for)\b')


def find_loops(body):
    """-> list of (kw_index, brace_index) for every loop in source order."""
    mask = code_mask(body)
    res = []
    for mm in LOOP_KW.finditer(body):
        if not mask[mm.start()]:
            continue
        # skip identifiers like `for_each` (word boundary handles) and labels
        i = mm.end()
        pd = 0
        while i < len(body):
            if mask[i]:
                c = body[i]
                if c in '([':
                    pd += 1
                elif c in ')]':
                    pd -= 1
                elif c == '{' and pd == 0:
                    break
            i += 1
        else:
            raise AnchorLost('loop without body')
        res.append((mm.start(), i))
    return res


MARK_RX = re.compile(r'let\s+(?:mut\s+)?(\w+)\s*=\s*(?:p|self)\.start_node\(\)\s*;')


def resolve_marks(name, body, text):
    """`$mK` in a clause = the variable bound by the K-th `let X = p.start_node();` of the function
    (positional, so that renaming a local does not disturb a contract)."""
    marks = MARK_RX.findall(body)

    def rep(mm):
        k = int(mm.group(1))
        if k >= len(marks):
            raise AnchorLost('%s: clause refers to $m%d but the function has %d start_node bindings' % (name, k, len(marks)))
        return marks[k]
    return re.sub(r'\$m(\d+)', rep, text)


CLOSURE_RX = re.compile(r'\|([^|{};]*)\|\s*(->\s*\(\s*\w+\s*:[^)]*\)\s*)?')


def find_closures(body):
    """-> list of (params_start, params_end, body_start, body_end, is_block) for every closure in source order.
    For a block-bodied closure body_start is the index of its `{`; for an expression-bodied one
    [body_start, body_end) is the expression (up to the next top-level `,` or the closing `)` of the call)."""
    mask = code_mask(body)
    res = []
    for mm in CLOSURE_RX.finditer(body):
        if not mask[mm.start()]:
            continue
        k = mm.start() - 1
        while k >= 0 and body[k].isspace():
            k -= 1
        if k >= 0 and body[k] not in '=(,':
            continue
        b = mm.end()
        if b < len(body) and body[b] == '{':
            res.append((mm.start(1), mm.end(1), b, match_brace(body, mask, b) + 1, True))
            continue
        if mm.group(2):
            continue
        pd, e = 0, b
        while e < len(body):
            if mask[e]:
                c = body[e]
                if c in '([{':
                    pd += 1
                elif c in ')]}':
                    if pd == 0:
                        break
                    pd -= 1
                elif c in ',;' and pd == 0:
                    break
            e += 1
        res.append((mm.start(1), mm.end(1), b, e, False))
    return res


def split_args(s):
    parts, depth, cur = [], 0, ''
    for c in s:
        if c in '([{':
            depth += 1
        elif c in ')]}':
            depth -= 1
        if c == ',' and depth == 0:
            parts.append(cur.strip())
            cur = ''
        else:
            cur += c
    if cur.strip():
        parts.append(cur.strip())
    return parts


def stmt_start(body, mask, idx):
    """start of the statement containing position idx: just after the previous `;`, `{` or `}` in code"""
    k = idx - 1
    while k >= 0:
        if mask[k] and body[k] in ';{}':
            return k + 1
        k -= 1
    return 0


def stmt_end(body, mask, idx):
    """index just after the `;` that ends the statement containing position idx"""
    pd = 0
    k = idx
    while k < len(body):
        if mask[k]:
            c = body[k]
            if c in '([{':
                pd += 1
            elif c in ')]}':
                pd -= 1
                if pd < 0:
                    return k
            elif c == ';' and pd == 0:
                return k + 1
        k += 1
    return len(body)


def strip_comments(text):
    m = code_mask(text)
    # keep string/char literals (they are masked too) out of the way as well: only used to match `let X =` prefixes
    return ''.join(c if ok else ' ' for c, ok in zip(text, m))


_HEADERS = {}


def resolve_names(name, body, names_spec):
    """-> dict placeholder -> identifier, for the `@names FN` section: names of locals are looked up positionally
    (by what they are initialised with / which closure parameter / which loop variable they are), so that renaming a
    local does not disturb a contract."""
    res = {}
    code = strip_comments(body)
    closures = None
    for ph, kind, arg in names_spec:
        if kind == 'let':
            pat = arg
            for k, v in res.items():
                pat = pat.replace(k, re.escape(v))
            mm = re.search(r'\blet\s+(?:mut\s+)?(\w+)\s*(?::[^=;]+)?=\s*' + pat + r'\s*;', code)
            if not mm:
                raise AnchorLost('%s: no `let X = %s;` for the contract placeholder %s' % (name, arg, ph))
            res[ph] = mm.group(1)
        elif kind == 'closure':
            mm = re.match(r'(\d+)\s+param\s+(\d+)$', arg)
            closures = closures or find_closures(body)
            k, j = int(mm.group(1)), int(mm.group(2))
            if k >= len(closures):
                raise AnchorLost('%s: placeholder %s refers to closure #%d' % (name, ph, k))
            params = [x.strip() for x in body[closures[k][0]:closures[k][1]].split(',')]
            if j >= len(params):
                raise AnchorLost('%s: placeholder %s refers to parameter %d of closure #%d' % (name, ph, j, k))
            res[ph] = re.match(r'(?:mut\s+)?(\w+)', params[j]).group(1)
        elif kind == 'loopvar':
            loops = find_loops(body)
            k = int(arg)
            if k >= len(loops):
                raise AnchorLost('%s: placeholder %s refers to loop #%d' % (name, ph, k))
            mm = re.match(r'for\s+(\w+)\s+in\b', body[loops[k][0]:])
            if not mm:
                raise AnchorLost('%s: loop #%d is not a `for X in ..` loop (placeholder %s)' % (name, k, ph))
            res[ph] = mm.group(1)
        elif kind == 'iflet':
            # the k-th `if let Some(X) = ..` of the function
            ms = [mm for mm in re.finditer(r'\b(?:if\s+)?let\s+Some\s*\(\s*(\w+)\s*\)\s*=', code)]   # `if let Some(X) = ..` or `let Some(X) = .. else`
            k = int(arg)
            if k >= len(ms):
                raise AnchorLost('%s: placeholder %s refers to `if let Some(..)` #%d' % (name, ph, k))
            res[ph] = ms[k].group(1)
        elif kind == 'param':
            # the k-th parameter of the function (0 = the receiver)
            hdr = _HEADERS.get(name, '')
            i = hdr.find('(')
            ps = split_args(hdr[i + 1:match_brace(hdr, code_mask(hdr), i, '(', ')')]) if i >= 0 else []
            k = int(arg)
            pm = re.match(r'(?:mut\s+)?(\w+)\s*:', ps[k]) if k < len(ps) else None
            if not pm:
                raise AnchorLost('%s: placeholder %s refers to parameter %d' % (name, ph, k))
            res[ph] = pm.group(1)
        else:
            raise SpecError('unknown @names kind: ' + kind)
    return res


def subst_names(text, names):
    for ph in sorted(names, key=len, reverse=True):
        text = re.sub(re.escape(ph) + r'\b', names[ph], text)
    return text


def weave_body(name, body, loops_spec, proof_entry, used, fn_need=None, ghost_entry=None):
    loops = find_loops(body)
    mask = code_mask(body)
    orig_body = body
    names = resolve_names(name, body, getattr(loops_spec, 'names', {}).get(name, []))
    dropped_opt = getattr(loops_spec, 'dropped_optional', set())
    if proof_entry:
        proof_entry = subst_names(proof_entry, names)
    edits = []   # (position, replaced_length, text); applied from the back so positions stay valid
    # a @loop entry whose loop no longer exists is dropped (recorded by assemble), not fatal: the function is then
    # verified against its own contract with whatever loops it has now
    for k in range(len(loops)):
        kw, br = loops[k]
        sp = loops_spec.get((name, k))
        if not sp:
            continue
        used.add((name, k))
        sp = {key: subst_names(resolve_marks(name, orig_body, val), names) for key, val in sp.items()}
        if sp.get('fuel'):
            # `fuel Nh Ah Ne Ae`: fuel_ok(.., Nh, Ah) at the loop head (before the condition is evaluated),
            # fuel_ok(.., Ne, Ae) at every exit (condition false or break): the look-aheads of the condition and of the
            # iteration that breaks are spent by then
            v = 'self' if name.startswith('Parser::') else 'p'
            nh, ah, ne, ae = sp['fuel'].split()[:4]
            sp = dict(sp)
            sp['invariant_except_break'] = (sp.get('invariant_except_break', '').rstrip(',') + ', ' if sp.get('invariant_except_break') else '') + 'fuel_ok(*old(%s), *%s, %s, %s)' % (v, v, nh, ah)
            sp['loop_ensures'] = (sp.get('loop_ensures', '').rstrip(',') + ', ' if sp.get('loop_ensures') else '') + 'fuel_ok(*old(%s), *%s, %s, %s)' % (v, v, ne, ae)
            if fn_need is not None:
                sp['invariant'] = (sp.get('invariant', '').rstrip(',') + ', ' if sp.get('invariant') else '') + 'old(%s).fuel >= %s' % (v, fn_need)
        clauses = []
        for key in ('invariant_except_break', 'invariant'):
            if sp.get(key):
                clauses.append('        %s %s' % (key, sp[key].rstrip(',') + ','))
        if sp.get('loop_ensures'):
            clauses.append('        ensures %s' % (sp['loop_ensures'].rstrip(',') + ','))
        if sp.get('decreases'):
            clauses.append('        decreases %s' % (sp['decreases'].rstrip(',') + ','))
        ins = '\n' + '\n'.join(clauses) + '\n    '
        after = ''
        if sp.get('proof_loop_entry'):
            after = ' proof { ' + sp['proof_loop_entry'] + ' }'
        edits.append((br, 1, ins + '{' + after))
        if sp.get('iter_name'):
            # `for PAT in EXPR` -> `for PAT in NAME: EXPR` (Verus' name for the ghost iterator; an annotation)
            mm = re.compile(r'\bin\s+').search(orig_body, kw, br)
            if not orig_body.startswith('for', kw) or not mm:
                raise AnchorLost('%s: iter_name given for loop #%d, which is not a for loop' % (name, k))
            edits.append((mm.end(), 0, sp['iter_name'].strip() + ': '))
    # ---- closure contracts
    closures = find_closures(orig_body)
    for k, (ps, pe, br, be, is_block) in enumerate(closures):
        sp = getattr(loops_spec, 'closures', {}).get((name, k))
        if not sp and re.search(r'verif_range_take_while_count\s*\([^()|]*$', orig_body[:ps - 1]):
            # group anchor `@closure FN#-1`: every closure that is the predicate of a take_while/count chain (R11)
            sp = getattr(loops_spec, 'closures', {}).get((name, -1))
            if sp:
                used.add((name, 'closure', -1))
        if not sp:
            continue
        used.add((name, 'closure', k))
        pnames = dict(names)
        for j, prm in enumerate(x.strip() for x in orig_body[ps:pe].split(',')):
            pm = re.match(r'(?:mut\s+)?(\w+)', prm)
            if pm:
                pnames['$p%d' % j] = pm.group(1)
        sp = {key: subst_names(val, pnames) for key, val in sp.items()}
        if sp.get('annotate'):
            params = orig_body[ps:pe]
            for ann in sp['annotate'].split(';'):
                nm, ty = [x.strip() for x in ann.split(':', 1)]
                params, n = re.subn(r'\b%s\b(?!\s*:)' % re.escape(nm), '%s: %s' % (nm, ty), params, count=1)
                if n != 1:
                    raise AnchorLost('%s: closure #%d has no untyped parameter `%s`' % (name, k, nm))
            edits.append((ps, pe - ps, params))
        cl = []
        for key in ('requires', 'ensures'):
            if sp.get(key) or (key == 'ensures' and sp.get('ensures_optional')):
                cl.append('            %s %s' % (key, (sp.get(key, '').rstrip(',') + ',') if sp.get(key) else ''))
                if key == 'ensures':
                    for n_, oc in enumerate(split_top(sp.get('ensures_optional', ''))):
                        oid = 'opt:%s:closure%d:%d' % (name, k, n_)
                        if oc.strip() and oid not in dropped_opt:
                            cl.append('                %s, /*@%s*/' % (oc.strip(), oid))
        ret = ' -> %s' % sp['returns'].strip() if sp.get('returns') else ''
        if is_block:
            if cl or ret:
                edits.append((br, 0, ret + '\n' + '\n'.join(cl) + '\n        '))
        else:
            # an expression-bodied closure that receives a contract gets its body wrapped in a block
            # (Rust's grammar requires a block once a return type is written): `|x| e` -> `|x: T| -> (r: U) ensures .. { e }`
            edits.append((br, 0, ret + '\n' + '\n'.join(cl) + '\n        { '))
            edits.append((be, 0, ' }'))
    # ---- proof hints at positional anchors (call ordinal / loop ordinal)
    for where, target, sp in getattr(loops_spec, 'hints', {}).get(name, []):
        text = subst_names(sp.get('proof', ''), names)
        # `ghost X = EXPR`: a ghost snapshot visible to later hints, emitted in front of the proof block
        gpre = ''
        if sp.get('ghost'):
            gname, _, gexpr = subst_names(sp['ghost'], names).partition('=')
            gpre = '\n        let ghost %s = %s;' % (gname.strip(), gexpr.strip())
        used.add((name, 'hint', where, target))
        if target.startswith('loop#'):
            k = int(target[5:])
            if k >= len(loops):
                raise AnchorLost('%s: @hint refers to loop #%d, the function has %d loops' % (name, k, len(loops)))
            kw, br = loops[k]
            if where == 'before':
                edits.append((stmt_start(orig_body, mask, kw), 0, gpre + '\n        proof { ' + text + ' }\n'))
            else:
                edits.append((match_brace(orig_body, mask, br) + 1, 0, gpre + '\n        proof { ' + text + ' }\n'))
            continue
        callee, _, ordk = target.partition('#')
        calls = [mm for mm in re.finditer(r'\b%s\s*\(' % re.escape(callee), orig_body) if mask[mm.start()]
                 and not re.search(r'(fn|let)\s+$', orig_body[:mm.start()])]
        if not calls:
            raise AnchorLost('%s: @hint refers to calls of `%s`, there are none' % (name, callee))
        if ordk:
            if int(ordk) >= len(calls):
                raise AnchorLost('%s: @hint refers to call %s, there are %d calls' % (name, target, len(calls)))
            calls = [calls[int(ordk)]]
        for mm in calls:
            po = mm.end() - 1
            pc = match_brace(orig_body, mask, po, '(', ')')
            args = split_args(orig_body[po + 1:pc])
            t = text
            for ai, a in enumerate(args):
                t = t.replace('$marg%d' % ai, re.sub(r'^&\s*mut\s+', '', a)).replace('$arg%d' % ai, '(' + a + ')')
            if '$arg' in t or '$marg' in t:
                raise AnchorLost('%s: @hint %s uses an argument placeholder the call does not have' % (name, target))
            # the receiver, if it is a method call: `recv.callee(`
            rm = re.search(r'([\w\.]+)\s*\.\s*$', orig_body[:mm.start()])
            t = t.replace('$recv', rm.group(1) if rm else '')
            if '$lhs' in t:
                lm = re.match(r'\s*let\s+(?:mut\s+)?(\w+)\s*=', strip_comments(orig_body)[stmt_start(orig_body, mask, mm.start()):mm.start()])
                if not lm:
                    raise AnchorLost('%s: @hint %s uses $lhs but the call is not the initialiser of a `let`' % (name, target))
                t = t.replace('$lhs', lm.group(1))
            if where == 'before':
                edits.append((stmt_start(orig_body, mask, mm.start()), 0, gpre + '\n        proof { ' + t + ' }\n'))
            else:
                edits.append((stmt_end(orig_body, mask, mm.start()), 0, gpre + '\n        proof { ' + t + ' }\n'))
    out = orig_body
    for pos, ln, text in sorted(edits, key=lambda e: (e[0], e[1]), reverse=True):
        out = out[:pos] + text + out[pos + ln:]
    if proof_entry:
        assert out[0] == '{'
        out = '{ proof { ' + proof_entry + ' }' + out[1:]
    if ghost_entry:
        # `ghost_entry X = EXPR`: a ghost snapshot of (typically) a `mut` parameter's initial value
        gname, _, gexpr = subst_names(ghost_entry, names).partition('=')
        out = '{ let ghost %s = %s;' % (gname.strip(), gexpr.strip()) + out[1:]
    return out


def candidate_contract(item):
    """Candidate clauses for a grammar function that has no @fn entry (a helper somebody added or renamed).
    -> {'requires': [..], 'ensures': [..], 'fixed_requires': [..], 'fixed_ensures': [..]} or None.
    `fixed_*` is the frame every grammar function must keep; the other clauses are CANDIDATES that
    tools/prop_parser.py prunes Houdini-style (a requires candidate that fails at some call site and an
    ensures candidate that the body does not establish are dropped) until nothing changes."""
    mm = re.search(r'\(\s*(p|self)\s*:\s*&mut\s+Parser', item.header) or (re.search(r'\(\s*&mut self', item.header) and item.owner == 'Parser')
    if not mm:
        # a helper that only builds a value: if its body is a single literal (enum / struct literal or path, no calls),
        # the candidate says so - `fn pending_open(&self) -> Event { Event::Open { kind: ERROR } }`
        body = item.body.strip()
        inner = strip_comments(body[1:-1]).strip() if body.startswith('{') and body.endswith('}') else ''
        if inner and re.search(r'->', item.header) and re.match(r'^[\w:]+(\s*\{[^(){};]*\})?$', inner, re.S):
            return {'fixed_requires': [], 'fixed_ensures': [], 'requires': [], 'ensures': ['r == (%s)' % ' '.join(inner.split())]}
        return None
    v = 'self' if item.owner == 'Parser' else 'p'
    marks = re.findall(r'(\w+)\s*:\s*MarkOpened', item.header)
    closed = re.findall(r'(\w+)\s*:\s*MarkClosed', item.header)
    d = -1 if marks else 0
    c = {'fixed_requires': ['old(%s).wf_tok()' % v, 'old(%s).wf_ev()' % v],
         'fixed_ensures': ['lp(*old(%s), *final(%s), %d)' % (v, v, d)],
         'requires': ['old(%s).pos < old(%s).tokens@.len()' % (v, v)],
         'ensures': ['prog(*old(%s), *final(%s))' % (v, v), 'final(%s).pos == old(%s).pos + 1' % (v, v),
                     'old(%s).pos < old(%s).tokens@.len() ==> prog(*old(%s), *final(%s))' % (v, v, v, v),
                     'final(%s).pos == old(%s).pos' % (v, v),
                     'EXPR_FIRST_spec(old(%s).cur()) ==> prog(*old(%s), *final(%s))' % (v, v, v),
                     'PATTERN_FIRST_spec(old(%s).cur()) ==> prog(*old(%s), *final(%s))' % (v, v, v),
                     'TYPE_FIRST_spec(old(%s).cur()) ==> prog(*old(%s), *final(%s))' % (v, v, v)]}
    # fuel accounting (R10): descending chain of entry requirements, grids of no-progress / after-last-bump bounds
    c['requires'] += ['old(%s).fuel >= %d' % (v, k) for k in (1, 2, 3, 4, 6, 8, 10)]
    c['ensures'] += ['final(%s).pos == old(%s).pos ==> final(%s).fuel >= old(%s).fuel - %d' % (v, v, v, v, n) for n in (0, 1, 2, 3, 4, 6, 8, 10)]
    c['ensures'] += ['final(%s).pos > old(%s).pos ==> final(%s).fuel >= VFUEL - (%d + 9 * (MAX_DEPTH + 1 - old(%s).depth))' % (v, v, v, a, v)
                     for a in (0, 1, 2, 3, 4, 6, 8, 10, 12, 16)]
    for m in marks:
        c['fixed_requires'] += ['open_at(*old(%s), %s)' % (v, m), 'depth(old(%s).events@) >= 2' % v]
    for m in closed:
        c['requires'].append('%s.index <= old(%s).events@.len()' % (m, v))
    lead = re.match(r'\{\s*assert!\(\s*(?:p|self)\.at\(\s*(SyntaxKind::\w+)\s*\)\s*\)\s*;', item.body)
    if lead:
        c['fixed_requires'].append('old(%s).cur() == %s' % (v, lead.group(1)))
    if re.search(r'->\s*MarkClosed\s*$', item.header.strip()):
        c['ensures'].append('mark_ok(*old(%s), *final(%s), r)' % (v, v))
    if re.search(r'->\s*bool\s*$', item.header.strip()):
        c['ensures'].append('r ==> prog(*old(%s), *final(%s))' % (v, v))
    return c


def default_contract(item, inferred=None):
    """Contract for a grammar function that has no @fn entry: the fixed frame plus the candidates that are
    still alive (all of them at the start of the inference)."""
    c = candidate_contract(item)
    if c is None:
        return {}
    alive = inferred.get(item.name) if inferred is not None and item.name in inferred else {'requires': c['requires'], 'ensures': c['ensures']}
    return {'requires': ', '.join(c['fixed_requires'] + alive['requires']),
            'ensures': ', '.join(c['fixed_ensures'] + alive['ensures'])}


def emit_fn(item, fns_spec, loops_spec, used_fn, used_loop, defaulted, inferred=None, external=()):
    sp = fns_spec.get(item.name)
    if sp is not None and item.name in external:
        # fallback: the body is outside what the rewrites / Verus can take; its contract is assumed in this run (and says so)
        sp = dict(sp)
        sp['external_body'] = ''
        sp.pop('proof_entry', None)
        for k in list(getattr(loops_spec, 'closures', {})):
            if k[0] == item.name:
                used_loop.add((k[0], 'closure', k[1]))
        used_loop |= set(k for k in loops_spec if k[0] == item.name)
        loops_spec = Loops()
    if sp is None:
        sp = default_contract(item, inferred)
        if sp:
            defaulted.append(item.name)
        else:
            # no @fn entry and nothing to infer from its signature: Verus knows nothing about what it returns
            defaulted.append('?' + item.name)
    else:
        used_fn.add(item.name)
    header, has_ret = name_return(item.header)
    _HEADERS[item.name] = item.header
    fn_need = None
    if sp.get('fuel'):
        # `fuel R N A`: the function needs R units of fuel at entry (look-aheads before its first consumed token);
        # a run that consumes nothing spends at most N; after the last consumed token at most
        # A + FUEL_U * (levels of nesting left) look-aheads happen before it returns
        v = 'self' if item.owner == 'Parser' else 'p'
        need, pre, a = sp['fuel'].split()[:3]
        fn_need = need
        sp = dict(sp)
        sp['requires'] = (sp.get('requires', '').rstrip(',') + ', ' if sp.get('requires') else '') + 'old(%s).fuel >= %s' % (v, need)
        sp['ensures'] = (sp.get('ensures', '').rstrip(',') + ', ' if sp.get('ensures') else '') + 'fuel_ok(*old(%s), *final(%s), %s, %s)' % (v, v, pre, a)
    lines = []
    if 'external_body' in sp:
        lines.append('#[verifier::external_body]')
    if sp.get('attr'):
        lines.append(sp['attr'])
    lines.append(header)
    fnames = resolve_names(item.name, item.body, getattr(loops_spec, 'names', {}).get(item.name, []))
    dropped_opt = getattr(loops_spec, 'dropped_optional', set())
    for key in ('requires', 'ensures', 'decreases'):
        if sp.get(key) or (key == 'ensures' and sp.get('ensures_optional')):
            lines.append('    %s %s' % (key, (subst_names(sp[key], fnames).rstrip(',') + ',') if sp.get(key) else ''))
            if key == 'ensures':
                # optional clauses (one per line, each with its id): pruned Houdini-style when the body does not establish them
                for n_, oc in enumerate(split_top(sp.get('ensures_optional', ''))):
                    oid = 'opt:%s:%d' % (item.name, n_)
                    if oc.strip() and oid not in dropped_opt:
                        lines.append('        %s, /*@%s*/' % (subst_names(oc.strip(), fnames), oid))
    body = weave_body(item.name, item.body, loops_spec, sp.get('proof_entry'), used_loop, fn_need, sp.get('ghost_entry'))
    return '\n'.join(lines) + '\n' + body + '\n'


# without these the unit cannot carry the properties at all
CORE_FNS = ('Parser::start_node', 'Parser::start_node_before', 'Parser::finish_node', 'Parser::bump', 'Parser::nth',
            'Parser::error', 'Parser::eof', 'Parser::at', 'Parser::at_any', 'Parser::eat', 'Parser::expect', 'module',
            'TokenSet::new', 'TokenSet::union', 'TokenSet::contains', 'mask')

CONST_NEW_RX = re.compile(r'^TokenSet::new\(\s*&\[(.*?)\]\s*\)(.*)$', re.S)
UNION_RX = re.compile(r'^\.union\(\s*([A-Z_0-9]+)\s*\)(.*)$', re.S)


def const_members(init):
    """Parse `TokenSet::new(&[A, B]).union(X).union(Y)` -> ([A, B], [X, Y])."""
    s = init.strip()
    mm = CONST_NEW_RX.match(s)
    if not mm:
        raise AnchorLost('token-set constant initialiser not of the form TokenSet::new(&[..]).union(..): ' + s[:80])
    members = [m.strip() for m in mm.group(1).split(',') if m.strip()]
    rest = mm.group(2).strip()
    unions = []
    while rest:
        um = UNION_RX.match(rest)
        if not um:
            raise AnchorLost('token-set constant initialiser tail not understood: ' + rest[:80])
        unions.append(um.group(1))
        rest = um.group(2).strip()
    return members, unions


def emit_const(item):
    """R4: exec const with a clause generated from the initialiser itself."""
    members, unions = const_members(item.text)
    disj = ['k == %s' % m for m in members] + ['%s_spec(k)' % u for u in unions]
    spec = 'spec fn %s_spec(k: SyntaxKind) -> bool { %s }\n' % (item.name, ' || '.join(disj) if disj else 'false')
    exec_ = ('exec const %s: TokenSet\n'
             '    ensures forall|k: SyntaxKind| kidx(k) < 128 ==> (#[trigger] %s.has(k) <==> %s_spec(k)),\n'
             '{\n    %s\n}\n') % (item.name, item.name, item.name, item.text)
    return spec + exec_


def assemble(ex, prelude, fns_spec, loops_spec, stubs, top=None, inferred=None, with_bt=True, only_bt=False, external=()):
    """-> (unit text, linemap [(unit_line, repo_path, repo_line, item name)], info)"""
    used_fn, used_loop, defaulted = set(), set(), []
    chunks = []   # (text, item or None)
    chunks.append(('use vstd::prelude::*;\nverus! {\n', None))
    chunks.append((stubs + '\n', None))
    chunks.append(('spec const VFUEL: int = %d; // the literal Parser::bump resets the progress-guard fuel to (R10)\n' % ex['fuel_reset'], None))
    chunks.append((prelude + '\n', None))
    items = ex['items']
    if not with_bt:
        # fallback: the tree builder stays outside the Verus unit (its text is not within reach of the rewrites R11/R12);
        # the bounded Kani harnesses are then the only check of Parser::build_tree
        items = [it for it in items if it.name != 'Parser::build_tree']
    if only_bt:
        # reduced unit: the tree builder and the kind predicates only (used to prune optional clauses cheaply)
        items = [it for it in items if it.kind != 'fn' or it.name == 'Parser::build_tree'
                 or (it.owner == 'SyntaxKind' and it.path.endswith('kind.rs'))]
        items = [it for it in items if it.kind != 'const']
        top = None
    for it in items:
        if it.kind == 'type':
            chunks.append((it.text + '\n', it))
    for it in items:
        if it.kind == 'const':
            chunks.append((emit_const(it), it))
    owners = {}
    for it in items:
        if it.kind == 'fn' and it.owner:
            owners.setdefault(it.owner, []).append(it)
    for owner, its in owners.items():
        head = ex['impl_parser_header'] if owner == 'Parser' else 'impl %s' % owner
        chunks.append((head + ' {\n', None))
        for it in its:
            chunks.append((emit_fn(it, fns_spec, loops_spec, used_fn, used_loop, defaulted, inferred, external), it))
        chunks.append(('}\n', None))
    for it in items:
        if it.kind == 'fn' and not it.owner:
            chunks.append((emit_fn(it, fns_spec, loops_spec, used_fn, used_loop, defaulted, inferred), it))
    if top:
        chunks.append((top.replace('@PARSER_LITERAL@', ex['parser_literal']) + '\n', None))
    chunks.append(('} // verus!\nfn main() {}\n', None))

    names = set(it.name for it in items if it.kind == 'fn')
    dropped_anchors = []
    for nm in fns_spec:
        if only_bt:
            break
        if nm == 'Parser::build_tree' and not with_bt:
            continue
        if nm not in names:
            if nm in CORE_FNS:
                raise AnchorLost('@fn %s: no such function in the working tree' % nm)
            dropped_anchors.append('@fn %s' % nm)
    if not with_bt:
        used_loop |= set(k for k in loops_spec if k[0] == 'Parser::build_tree')
    if only_bt:
        used_loop |= set(loops_spec)
    for key in loops_spec:
        if key not in used_loop:
            dropped_anchors.append('@loop %s#%d' % key)
    for key in getattr(loops_spec, 'closures', {}):
        if key[0] == 'Parser::build_tree' and not with_bt:
            continue
        if (key[0], 'closure', key[1]) not in used_loop:
            dropped_anchors.append('@closure %s#%d' % key)
    if len(dropped_anchors) > 8:
        raise AnchorLost('too many contract anchors no longer exist in the working tree: %s' % dropped_anchors[:10])

    text = ''
    linemap = []
    line = 1
    for chunk, it in chunks:
        n = chunk.count('\n')
        if it is not None:
            linemap.append((line, line + n - 1, it.path, it.line, it.name))
        text += chunk
        line += n
    uncontracted = [d[1:] for d in defaulted if d.startswith('?')]
    defaulted[:] = [d for d in defaulted if not d.startswith('?')]
    info = {'contracted': sorted(used_fn), 'defaulted': defaulted, 'uncontracted': uncontracted, 'dropped_anchors': dropped_anchors,
            'loops_contracted': sorted('%s#%d' % k for k in used_loop if len(k) == 2),
            'closures_contracted': sorted('%s#%d' % (k[0], k[2]) for k in used_loop if len(k) == 3 and k[1] == 'closure')}
    return text, linemap, info


# --------------------------------------------------------------------------
# vacuity guard: reachability of every precondition

def split_params(header):
    mask = code_mask(header)
    i = header.find('(')
    j = match_brace(header, mask, i, '(', ')')
    inner = header[i + 1:j]
    parts, depth, cur = [], 0, ''
    for c in inner:
        if c in '(<[':
            depth += 1
        elif c in ')>]':
            depth -= 1
        if c == ',' and depth == 0:
            parts.append(cur.strip())
            cur = ''
        else:
            cur += c
    if cur.strip():
        parts.append(cur.strip())
    return parts


def reach_module(ex, fns_spec):
    """`proof fn reach_X(..) { assume(<requires of X>); assert(false); }` for every contracted
    function with a requires clause.  Verus must REJECT every one of them: a contradictory
    precondition would make its function verify vacuously."""
    out = ['mod reach {', 'use super::*;', 'use vstd::prelude::*;', 'verus! {']
    names = []
    for it in ex['items']:
        if it.kind != 'fn':
            continue
        sp = fns_spec.get(it.name)
        if not sp or not sp.get('requires'):
            continue
        params = []
        for prm in split_params(it.header):
            if re.match(r'^&?\s*(mut\s+)?self$', prm.replace("&'_ ", '&')) or prm in ('self', '&self', '&mut self'):
                owner = {'Parser': 'Parser', 'TokenSet': 'TokenSet', 'SyntaxKind': 'SyntaxKind'}[it.owner]
                params.append('s: %s' % owner)
                continue
            nm, ty = prm.split(':', 1)
            nm = nm.replace('mut ', '').strip()
            ty = ty.strip()
            ty = re.sub(r"^&\s*mut\s+Parser(<'_>)?$", 'Parser', ty)
            params.append('%s: %s' % (nm, ty))
        req = sp['requires']
        req = re.sub(r'\*old\((\w+)\)', lambda m: 's' if m.group(1) == 'self' else m.group(1), req)
        req = re.sub(r'old\((\w+)\)', lambda m: 's' if m.group(1) == 'self' else m.group(1), req)
        req = re.sub(r'\*self\b', 's', req)
        req = re.sub(r'\bself\b', 's', req)
        fname = 'reach_' + re.sub(r'\W+', '_', it.name)
        names.append((fname, it.name))
        out.append('proof fn %s(%s)\n    requires %s,\n{\n    assert(false);\n}' % (fname, ', '.join(params), req.rstrip(',')))
    out += ['} // verus!', '} // mod reach']
    return '\n'.join(out) + '\n', names


def split_top(s):
    """split a clause list on top-level commas"""
    parts, depth, cur = [], 0, ''
    for c in s:
        if c in '([{':
            depth += 1
        elif c in ')]}':
            depth -= 1
        if c == ',' and depth == 0:
            parts.append(cur)
            cur = ''
        else:
            cur += c
    if cur.strip():
        parts.append(cur)
    return parts
