"""C13 / C14 / C15 / C19: bounded Kani checks of the real LineMap / Vfs / convert / semantic-token
functions (extracted verbatim per run) against the LSP client reference (tools/lsp_reference.py).
Documents are enumerated; positions, offsets, ranges and tags are symbolic over their full domain."""
import concurrent.futures as cf
import json
import os
import re
import shutil
import time

import extract_linemap
import gen_linemap
import kani_run
import side_unit
import session_probe
import normalize_probe
from common import VERIF, REPO, scratch, Undecided, write_evidence, write_replay, load_known_findings, finish, seed
from rustcut import AnchorLost

FLAGS = ('-Z', 'stubbing')

CANARIES = {
    'C14': [
        {'name': 'pos-for-line-col-le-instead-of-lt', 'file': 'crates/glas/src/vfs.rs',
         'old': '                if char_pos < col {\n                    col += diff as u32;', 'new': '                if char_pos <= col {\n                    col += diff as u32;',
         'harness': 'c14', 'doc': 'ß'},
        {'name': 'three-byte-char-diff-one', 'file': 'crates/glas/src/vfs.rs',
         'old': '0b1110_0000..=0b1110_1111 => CodeUnitsDiff::Two,', 'new': '0b1110_0000..=0b1110_1111 => CodeUnitsDiff::One,',
         'harness': 'c14', 'doc': 'ℝa'},
    ],
    'C13': [
        {'name': 'splice-does-not-delete', 'file': 'crates/glas/src/vfs.rs',
         'old': "                buf += &text[usize::from(del_range.end())..];", 'new': "                buf += &text[usize::from(del_range.start())..];",
         'harness': 'c13_splice', 'doc': 'aa', 'index': 1},
        {'name': 'normalize-keeps-carriage-returns', 'file': 'crates/glas/src/vfs.rs',
         'old': "        text.retain(|c| c != '\\r');", 'new': "        text.retain(|c| c != '\\u{0}');",
         'harness': 'c13_cr', 'doc': '\r'},
    ],
    'C15': [
        {'name': 'line-past-the-end-read-as-line-0', 'file': 'crates/glas/src/convert.rs',
         'old': None, 'new': None, 'harness': 'c15_pos', 'doc': 'a\n'},
    ],
    'C19': [
        {'name': 'delta-start-not-relative', 'file': 'crates/glas/src/convert.rs',
         'old': '                delta_start: start - prev_start,', 'new': '                delta_start: start,',
         'harness': 'c19', 'doc': 'aaa'},
    ],
}


def build(repo, dest, prop, tier):
    text, hs = gen_linemap.generate(prop, tier)
    ex = extract_linemap.write_crate(repo, dest, text)
    return ex, hs


def run_canary(prop, c, idx, tier):
    if c['old'] is None:
        return {'name': c['name'], 'status': 'skipped', 'why': 'placeholder'}
    d = os.path.join(scratch(), 'lmcanary_%s_%d' % (prop, idx))
    repo2 = os.path.join(d, 'repo')
    os.makedirs(os.path.join(repo2, 'crates/glas'))
    os.makedirs(os.path.join(repo2, 'crates/ide/src'))
    shutil.copytree(os.path.join(REPO, 'crates/glas/src'), os.path.join(repo2, 'crates/glas/src'))
    shutil.copytree(os.path.join(REPO, 'crates/ide/src/ide'), os.path.join(repo2, 'crates/ide/src/ide'))
    shutil.copy(os.path.join(REPO, 'Cargo.lock'), os.path.join(repo2, 'Cargo.lock'))
    p = os.path.join(repo2, c['file'])
    s = open(p).read()
    if s.count(c['old']) != 1:
        shutil.rmtree(d, ignore_errors=True)
        return {'name': c['name'], 'status': 'skipped', 'why': 'mutation site not found exactly once in the working tree'}
    open(p, 'w').write(s.replace(c['old'], c['new']))
    try:
        ex, hs = build(repo2, os.path.join(d, 'crate'), prop, tier)
    except (AnchorLost, Undecided) as e:
        shutil.rmtree(d, ignore_errors=True)
        return {'name': c['name'], 'status': 'undecided', 'why': str(e)[:200]}
    pick = [h for h in hs if h['name'].startswith(c['harness']) and h['doc'] == c['doc']]
    if not pick:
        shutil.rmtree(d, ignore_errors=True)
        return {'name': c['name'], 'status': 'skipped', 'why': 'no harness for document %r in this tier' % c['doc']}
    pick = pick[min(c.get('index', 0), len(pick) - 1):]
    r = kani_run.cargo_kani(os.path.join(d, 'crate'), 'verif_kani::' + pick[0]['name'], FLAGS, 1500)
    shutil.rmtree(d, ignore_errors=True)
    if r['status'] == 'FAILED':
        return {'name': c['name'], 'status': 'tripped', 'harness': pick[0]['name'], 'obligation': r['failed_checks'][0]['description']}
    return {'name': c['name'], 'status': 'NOT-TRIPPED' if r['status'] == 'SUCCESSFUL' else 'undecided', 'kani_status': r['status'],
            'tail': r['raw_tail'][-300:] if r['status'] != 'SUCCESSFUL' else ''}


def main(prop, tier):
    t0 = time.time()
    d = os.path.join(scratch(), 'linemap_kani')
    try:
        ex, hs = build(REPO, d, prop, tier)
    except (AnchorLost, OSError) as e:
        return undecided(prop, tier, t0, 'extraction anchor lost: %s' % e)
    names = ['verif_kani::' + h['name'] for h in hs]
    # (the Kani "session variant" of the crate - extract_linemap.extract_session / gen_linemap.generate_session - is not run:
    # no scenario finished within 20 minutes, DESIGN.md 0.11; C15 uses the native session probe instead)
    sess_dir, sess_hs, sess_ex = None, [], None
    cans = CANARIES.get(prop, [])
    if tier == 'quick':
        cans = cans[:1]
    jobs = int(os.environ.get('VERIF_JOBS', '15'))
    deds, ded_can = [], []
    nprobe = None
    sess_results = []
    probe = None
    try:
        with cf.ThreadPoolExecutor(max_workers=8) as pool:
            fc = [pool.submit(run_canary, prop, c, i, tier) for i, c in enumerate(cans)]
            dus = DED_UNIT.get(prop, [])
            fds, fdcs = [], []
            for du in dus:
                # deductive part (Verus, unbounded in the document and in the inputs of the extracted functions); the Kani
                # harnesses below check the line-map contract it assumes, and the same functions once more, on enumerated documents
                fds.append(pool.submit(side_unit.run, du))
                fdcs += [pool.submit(side_unit.canary, du, c, i) for i, c in enumerate(side_unit.UNITS[du]['canaries'][:1 if tier == 'quick' else None])]
            # native probe of the real Server: C15 looks at the whole-notification scenarios, C13 at the generated edit histories (K6)
            fprobe = pool.submit(session_probe.run_probe, REPO, 40 if tier == 'quick' else 400, seed()) if prop in ('C13', 'C15') else None
            # bounded native stand-in for LineMap::normalize at a much larger bound than CBMC reaches (C14 / C13)
            fnorm = pool.submit(normalize_probe.run_probe, REPO, 6 if tier == 'quick' else 9) if prop in ('C13', 'C14') else None
            results = kani_run.run_many(d, names, FLAGS, 2400, jobs=jobs)
            nprobe = fnorm.result() if fnorm else None
            probe = fprobe.result() if fprobe else None
            if probe and probe.get('scenarios'):
                mine_sc = (lambda n: n.startswith('history_')) if prop == 'C13' else (lambda n: not n.startswith('history_'))
                probe['scenarios_of_other_property'] = sorted(n for n in probe['scenarios'] if not mine_sc(n) and probe['scenarios'][n] == 'FAILED')
                probe['scenarios'] = {n: v for n, v in probe['scenarios'].items() if mine_sc(n)}
                probe['symptoms'] = {n: v for n, v in probe['symptoms'].items() if mine_sc(n)}
                if probe['status'] == 'failed' and not probe['symptoms']:
                    probe['status'] = 'passed'
            can = [f.result() for f in fc]
            deds = [f.result() for f in fds]
            for x in deds:
                keep = LMAP_FNS.get(prop)
                if x['unit'] == 'lmap' and x['status'] == 'failed' and keep is not None:
                    other = [f for f in x['failures'] if f['fn'] not in keep]
                    x['failures'] = [f for f in x['failures'] if f['fn'] in keep]
                    x['failures_of_other_property'] = [f['id'] for f in other]
                    if not x['failures']:
                        x['status'] = 'verified-for-this-property'
            ded_can = [f.result() for f in fdcs]
    except Undecided as e:
        return undecided(prop, tier, t0, str(e))
    byname = {h['name']: h for h in hs + sess_hs}
    sess_names = set('verif_kani::' + h['name'] for h in sess_hs)
    results = results + sess_results
    hs = hs + sess_hs
    und = [r for r in results if r['status'] in ('ERROR', 'TIMEOUT')]
    kf = load_known_findings()
    violations, known_lines, guard = [], [], []
    failed = [r for r in results if r['status'] == 'FAILED']
    # counterexamples -> native replay, a few at a time
    # one violation per distinct obligation; the smallest failing document carries the witness
    by_oblig = {}
    for r in sorted(failed, key=lambda r: (len(byname[r['harness'].split('::')[-1]]['doc']), r['harness'])):
        h = byname[r['harness'].split('::')[-1]]
        for fcheck in r['failed_checks']:
            oblig = 'linemap_kani :: %s :: %s' % (re.sub(r'_d\d+(_\d+)?$', '', h['name']), fcheck['description'])
            by_oblig.setdefault(oblig, []).append((r, h, fcheck))
    for oblig, lst in by_oblig.items():
        docs = [h['doc'] for (_, h, _) in lst]
        known = next((k for k in kf.get('findings', []) if k.get('property') == prop and k.get('obligation') == oblig), None)
        if known:
            known_lines.append('%s (%d documents, e.g. %r)' % (known.get('what', oblig), len(docs), docs[0]))
            continue
        r, h, fcheck = lst[0]
        tests = kani_run.playback_failure(sess_dir if r['harness'] in sess_names else d, r['harness'], FLAGS)
        t = next((t for t in tests if t['description'] == fcheck['description'] and t['native'].startswith('FAILED')), None)
        wit = None
        if t:
            wit = {'kind': 'kani-playback', 'document': h['doc'], 'harness': h['name'], 'concrete_vals': t['concrete_vals'],
                   'decoded': decode_vals(h['name'], t['concrete_vals']), 'test_source': t['test_source'], 'observed': t['native'],
                   'all_failing_documents': docs}
        path = write_replay(prop, oblig, fcheck['location'], 'kani 0.68.0 / cbmc 6.11', json.dumps(fcheck), wit,
                            './check %s --replay <this file>' % prop)
        violations.append((path, wit is not None))
    if probe and probe['status'] == 'failed':
        # bounded native probe of the real Server::on_did_change: every failing scenario is a concrete history on the real code
        sy = sorted(probe['symptoms'].items())
        oblig = 'session-probe :: Server::on_did_change :: %s' % (sy[0][1].split(' | ')[-1] or 'scenario failed')
        known = next((k for k in kf.get('findings', []) if k.get('property') == prop and k.get('obligation') == oblig), None)
        if known:
            known_lines.append('%s (%d scenarios, e.g. %s)' % (known.get('what', oblig), len(sy), sy[0][0]))
        else:
            wit = {'kind': 'session-probe', 'scenario': sy[0][0], 'observed': sy[0][1], 'all_failing_scenarios': dict(sy),
                   'source': 'tools/session_probe/verif_session.rs'}
            path = write_replay(prop, oblig, 'crates/glas/src/server.rs (Server::on_did_change)', 'native probe on a scratch copy of the real crate (bounded stand-in)',
                                json.dumps(probe['symptoms'], indent=1), wit, './check %s --replay <this file>' % prop)
            violations.append((path, True))
    if nprobe and nprobe['status'] == 'failed':
        oblig = 'normalize-probe :: LineMap::normalize :: %s' % re.sub(r'(of|in|for the line map of|offset) .*$', '', nprobe['symptom'])[:120].strip()
        known = next((k for k in kf.get('findings', []) if k.get('property') == prop and k.get('obligation') == oblig), None)
        if known:
            known_lines.append(known.get('what', oblig))
        else:
            wit = {'kind': 'normalize-probe', 'observed': nprobe['symptom'], 'bound': nprobe['bound'], 'source': 'tools/normalize_probe/verif_normalize.rs'}
            path = write_replay(prop, oblig, 'crates/glas/src/vfs.rs (LineMap::normalize and the query functions)', 'native enumeration on a scratch copy of the real crate (bounded stand-in)',
                                nprobe['symptom'], wit, './check %s --replay <this file>' % prop)
            violations.append((path, True))
    for ded in [x for x in deds if x['status'] == 'failed']:
        # failed obligations of the deductive part; a concrete failing input, when there is one, comes from the Kani harnesses above
        seen_fn = set()
        for f in ded['failures']:
            if f['fn'] in seen_fn:
                continue
            seen_fn.add(f['fn'])
            wit = None
            if violations:
                first = json.load(open(violations[0][0]))
                wit = first.get('witness')
            path = write_replay(prop, f['id'], f['where'], 'verus 0.2026.09.13', '\n'.join(x['rendered'] for x in ded['failures'] if x['fn'] == f['fn']),
                                wit, './check %s --replay <this file>' % prop)
            violations.append((path, wit is not None))
    for ded in [x for x in deds if x['status'] == 'verified']:
        if ded.get('reachability_guard') != 'rejected-as-required':
            guard.append('%s unit: precondition reachability guard: %s' % (ded['unit'], ded.get('reachability_guard')))
    if deds and all(x['status'].startswith('verified') for x in deds) and any(c['status'] == 'NOT-TRIPPED' for c in ded_can):
        guard.append('deductive units: canary not detected: %s' % [c['name'] for c in ded_can if c['status'] == 'NOT-TRIPPED'])
    ok = [r for r in results if r['status'] == 'SUCCESSFUL']
    for r in ok:
        if r.get('unsat_covers'):
            guard.append('%s: unsatisfiable cover %s' % (r['harness'], r['unsat_covers'][0][0]))
    if not failed and not und:
        if any(c['status'] == 'NOT-TRIPPED' for c in can):
            guard.append('canary not detected: %s' % [c['name'] for c in can if c['status'] == 'NOT-TRIPPED'])
    n_checks = sum(r.get('n_checks', r['checks']) for r in results)
    nontrivial = sum(1 for r in ok if (not r['covers']) or r['covers'][0] == r['covers'][1])
    L = max((len(h['doc']) for h in hs), default=0)
    cov = {'evaluations': n_checks, 'distinct_nontrivial': nontrivial,
           'rule': 'evaluations = CBMC properties checked over all harnesses of this run; one harness per enumerated document (distinct by construction); a harness counts as non-trivial when it verified and every cover property in it was satisfied',
           'samples': [{'harness': h['name'], 'document': h['doc'], 'what': h['what'],
                        'status': next((r['status'] for r in results if r['harness'].endswith('::' + h['name'])), None),
                        'checks': next((r.get('n_checks') for r in results if r['harness'].endswith('::' + h['name'])), None)} for h in hs[:4] + hs[-4:]],
           'exhaustive': False,
           'bound': 'every document of <= %d characters over the alphabet {a, LF, U+00DF (2 bytes), U+211D (3 bytes), U+1F4A3 (4 bytes, surrogate pair)}%s; per document, offsets / (line, column) pairs / ranges / tags symbolic over their whole domain; unwinding assertions on' % (L, ' plus CR' if prop == 'C13' else ''),
           'harnesses': len(hs), 'successful': len(ok), 'failed': len(failed), 'undecided': len(und),
           'functions_under_contract': sorted(set(ex['functions'] + (sess_ex['functions'] if sess_ex else []))), 'standins': ex['standins'] + ([sess_ex['standins'][-1]] if sess_ex else []),
           'extraction_dropped': ex['dropped'] + ([x for x in sess_ex['dropped'] if x not in ex['dropped']] if sess_ex else []),
           'back_end': 'Kani 0.68.0 / CBMC 6.11 (bounded stand-in: Verus rejects every one of these function texts, DESIGN.md 3.4)',
           'cbmc_s_total': round(sum(r.get('cbmc_s', 0) or 0 for r in results), 1),
           'canaries': can + ded_can, 'checker_cmd': results[0]['cmd'] if results else ''}
    if probe:
        cov['session_probe'] = probe
    if nprobe:
        cov['normalize_probe'] = nprobe
    if deds:
        cov['deductive_part'] = deds[0] if len(deds) == 1 else {'units': deds, 'status': 'verified' if all(x['status'].startswith('verified') for x in deds) else ('failed' if any(x['status'] == 'failed' for x in deds) else 'undecided')}
        if all(x['status'] == 'verified' for x in deds):
            cov['obligations'], cov['discharged'] = sum(x['verified'] + x['errors'] for x in deds), sum(x['verified'] for x in deds)
    assumptions = ex['standins'] + [DED_NOTE[x['unit']] for x in deds] + [
        'oracle: tools/lsp_reference.py, a naive LSP client written from the specification (shares no code with glas)',
        'server.rs::on_did_change (tokio / async-lsp) is not buildable under Kani: the per-change loop is covered only by the induction argument of DESIGN.md 3.4 (K6)',
        'Slab, Arc, text-size, anyhow are the real crates, executed symbolically; arithmetic is CBMC machine arithmetic with overflow checks (debug-build semantics)',
        'alloc::fmt::format is stubbed in harnesses that construct anyhow errors (message text is irrelevant to the contracts)'] + (
        ['native normalize probe (bounded, real crate glas built with cargo test --offline): every document of <= 6 (quick) / 9 (thorough) characters over {a, LF, CR, 2-, 3-, 4-byte char} through the real LineMap::normalize - stored text without CR, LineMap::wf and LineMap::bnd (the assumptions of the Verus unit lmap), the reference table, and at every character boundary the client\'s (line, column), round trip and strict monotonicity; execution of enumerated inputs, not a proof'] if nprobe else []) + (
        ['native session probe (bounded, real crate glas built with cargo test --offline): whole-notification scenarios (C15: several changes, an earlier one rejected, mid-surrogate, multi-byte) and generated edit histories compared with the LSP reference client (C13, clause K6: 40 histories in the quick tier, 400 in the thorough tier, seeded by VERIF_SEED) through the real Server::on_did_open / on_did_change; not a proof - server.rs is outside both verifiers'] if probe else [])
    write_evidence(prop, tier, 'model_checking', cov, assumptions, time.time() - t0, len(violations), {'known_findings_matched': known_lines})
    if probe and probe['status'] == 'undecided' and not violations:
        finish(prop, [], known_lines, 'native session probe not decided: %s' % probe.get('why', '')[:600])
    if nprobe and nprobe['status'] == 'undecided' and not violations:
        finish(prop, [], known_lines, 'native normalize probe not decided: %s' % nprobe.get('why', '')[:600])
    if und and not violations:
        finish(prop, [], known_lines, '%d harness(es) not decided (timeout / CBMC error), e.g. %s: %s' % (len(und), und[0]['harness'], und[0]['raw_tail'][-400:]))
    if guard and not violations:
        finish(prop, [], known_lines, 'vacuity guard failed: ' + '; '.join(guard[:4]))
    finish(prop, violations, known_lines)


DED_UNIT = {'C14': ['lmap'], 'C19': ['semtok', 'lmap'], 'C15': ['conv', 'vfs', 'fileset', 'lmap'], 'C13': ['vfs', 'fileset', 'lmap']}
# which functions of the line-map unit a property's deductive units rest on (a failed obligation elsewhere in that unit belongs
# to another property and is only listed)
LMAP_FNS = {'C14': None,
            'C19': ('LineMap::line_col_for_pos', 'LineMap::end_col_for_line', 'LineMap::last_line'),
            'C15': ('LineMap::pos_for_line_col', 'LineMap::end_col_for_line', 'LineMap::last_line'),
            'C13': ('LineMap::pos_for_line_col',)}
DED_NOTE = {}
DED_NOTE['fileset'] = ('deductive part (Verus): ide::FileSet::{insert, remove_file, file_for_path} (crates/ide/src/base.rs, verbatim) are verified against vstd\'s specification of std::collections::HashMap: the file set is the pair of '
                       'finite maps path -> id and id -> path, which is exactly the contract the Vfs unit assumes for its FileSet stand-in. ASSUMED there: VfsPath as an opaque key type whose derive(Clone, Eq, Hash) is lawful '
                       '(obeys_key_model), Option::copied.')
DED_NOTE['lmap'] = ('deductive part (Verus): LineMap::last_line, pos_for_line_col, line_col_for_pos and end_col_for_line (rewrites R23-R25 of tools/extract_lmap.py) are verified for ALL line maps satisfying the '
                    'representation invariant LineMap::wf (line starts strictly increasing from 0 and inside the text; the recorded multi-byte characters of a line lie one after the other inside it) and ALL arguments in the stated domain '
                    '(existing line, column within the line; offset inside the text and not strictly inside a recorded character): no index out of range, no overflow / underflow, and the results are the specification functions '
                    'last / p4lc / (is_line, col_of) / end_col; over those, thm_roundtrip (offset -> position -> offset is the identity, and the position lies inside its line), thm_mono (strictly monotone) and thm_ok (the contract '
                    'LineMap::ok that the encoder unit assumes) are proved.  This discharges, relative to wf, the line-map contracts that the units conv (C15), semtok (C19) and vfs/K3 (C13) assume.  ASSUMED there: wf itself '
                    '(established by LineMap::normalize - checked on enumerated documents by the Kani harnesses, which assert an executable copy of wf), that every character boundary of the text is an offset not strictly inside a recorded character '
                    '(normalize records every multi-byte character with its width difference - same harnesses), FxHashMap as a finite map, slice::partition_point / Iterator take_while, map, sum::<u32> by their standard-library meaning '
                    '(external_body helpers whose bodies are the original expressions), Option::copied.  If the unit cannot be extracted or Verus rejects it, this part is reported as undecided and the bounded harnesses alone decide.')
DED_NOTE['conv'] = ('deductive part (Verus): convert::from_file and from_file_pos (a request for an unknown or closed document is an Err and never indexes the file table: relative to Vfs::wf and the contracts of Vfs::file_for_uri / line_map_for_file that the vfs unit proves) and convert::from_pos and convert::from_range (ensure! expanded, R17) are verified for ALL client positions / ranges and ALL line maps, '
                    'relative to the contracts of LineMap::last_line / end_col_for_line (requires an existing line) / pos_for_line_col (requires a valid position) and Vfs::line_map_for_file: a position is accepted exactly '
                    'when its line exists and its column is within the line, and then converts to the line map\'s offset; a range exactly when both ends are accepted and it is not reversed; TextRange::new is only '
                    'reached with start <= end; the validating calls happen before the converting call. ASSUMED there: those contracts (what the Kani harnesses establish on enumerated documents), the stand-in structs, anyhow::Error as an opaque value. '
                    'If the unit cannot be extracted or Verus rejects it, this part is reported as undecided and the bounded harnesses alone decide.')
DED_NOTE['vfs'] = ('deductive part (Verus): Vfs::change_file_content (rewrites R17, R20-R22 of tools/extract_vfs.py) is verified for ALL documents, delete ranges and inserted texts relative to the contract of LineMap::normalize '
                   '(the text without CR and THE line map of that text - what the Kani harnesses K1 establish on enumerated documents): a ranged change is accepted exactly when the range ends inside the text and both ends are character boundaries; '
                   'the stored text is strip_cr(text[..start] + inserted + text[end..]) resp. strip_cr(inserted), the stored line map is the one of the stored text, no other file changes, the analysis is told the new text exactly once; '
                   'a rejected change leaves the file table and the change log untouched. The same unit verifies Vfs::{set_path_content (didOpen: stored text == strip_cr(text), stored line map == THE line map of the stored text, the path maps to the returned id, every other file untouched), '
                   'remove_uri, file_for_path, file_for_uri, content_for_file, line_map_for_file} and the data-structure invariant Vfs::wf - every path the file set knows maps to a LIVE slab key - which every mutator preserves and under which a FileId obtained from file_for_path / file_for_uri '
                   'satisfies the live-key precondition of change_file_content / content_for_file / line_map_for_file (slab panics with "invalid key" otherwise). ASSUMED there: slab\'s vacant-entry protocol (a vacant key is not live and at most the number of slots; inserting through the entry fills exactly that slot), Slab::remove, fewer than 2^32 slots (the code\'s own expect("Length overflow")), ide::FileSet by the contract the unit fileset proves, Url::to_vfs_path and anyhow::Context as opaque functions, slab::Slab as a finite map (indexing a vacant key is a failed precondition), Arc / String / str slicing by assume_specification, the text-size stand-ins, '
                   'stored texts < 4 GiB (LineMap::normalize panics otherwise). If the unit cannot be extracted or Verus rejects it, this part is reported as undecided and the bounded harnesses alone decide.')
DED_NOTE['semtok'] = ('deductive part (Verus): convert::to_semantic_tokens, to_range and semantic_tokens::to_semantic_type_and_modifiers are verified for ALL highlight lists '
            '(sorted, disjoint, on character boundaries, inside the text) and ALL line maps satisfying LineMap::ok (line_col_for_pos monotone on boundaries, lines <= last_line, '
            'columns <= end_col_for_line): no arithmetic underflow/overflow, end_col_for_line only called for existing lines, and the LSP decoding of the result equals the per-line pieces '
            'of the highlights with the type index of the advertised legend. ASSUMED there: the contracts of LineMap::line_col_for_pos / end_col_for_line / last_line (external_body; these '
            'are what the Kani harnesses of C14 and of this check establish on enumerated documents), lsp_types/text-size stand-in structs, derive(Default) of TokenModSet, rewrites R13-R16 '
            '(tools/extract_semtok.py). If the unit cannot be extracted or Verus rejects it, this part is reported as undecided and the bounded harnesses alone decide.')


def decode_vals(hname, vals):
    try:
        ints = [int.from_bytes(bytes(v), 'little') for v in vals]
    except Exception:
        return None
    if '_pos_' in hname and len(ints) >= 4:
        return {'range': {'start': {'line': ints[0], 'character': ints[1]}, 'end': {'line': ints[2], 'character': ints[3]}}}
    if hname.startswith('c14') and ints:
        return {'offset': ints[0], 'rest': ints[1:]}
    return {'values': ints}


def undecided(prop, tier, t0, msg):
    write_evidence(prop, tier, 'model_checking', {'evaluations': 1, 'distinct_nontrivial': 2, 'samples': ['UNDECIDED'], 'explanation': 'UNDECIDED: ' + msg[:1500]},
                   [], time.time() - t0, 0)
    finish(prop, [], [], msg[:1500])


def replay(prop, path):
    r = json.load(open(path))
    w = r.get('witness')
    if w and w.get('kind') == 'normalize-probe':
        pr = normalize_probe.run_probe()
        print('replay on the working tree: normalize probe: %s %s' % (pr['status'], pr.get('symptom', '')))
        return 1 if pr['status'] == 'failed' else 0
    if w and w.get('kind') == 'session-probe':
        pr = session_probe.run_probe()
        st = pr.get('scenarios', {}).get(w['scenario'])
        print('replay on the working tree: scenario %s: %s %s' % (w['scenario'], st, pr.get('symptoms', {}).get(w['scenario'], '')))
        return 1 if st == 'FAILED' else 0
    if not w or not w.get('test_source'):
        print('replay: no concrete witness; failed obligation: %s\n%s' % (r.get('obligation'), r.get('verifier_output')))
        return 1
    d = os.path.join(scratch(), 'replay_kani')
    # regenerate the harness for the witness' document in both tiers' generators
    session = w['harness'].startswith('c15_session')
    if session:
        text, hs = gen_linemap.generate_session('quick')
    else:
        for tier in ('quick', 'thorough'):
            text, hs = gen_linemap.generate(prop, tier)
            if any(h['name'] == w['harness'] and h['doc'] == w['document'] for h in hs):
                break
    extract_linemap.write_crate(REPO, d, text, session=session)
    tests = [{'test_name': re.search(r'fn (kani_concrete_playback_\w+)', w['test_source']).group(1), 'test_source': w['test_source'], 'native': 'not-run'}]
    kani_run.run_playback_tests(d, tests)
    print('replay on the working tree (document %r, %s): %s' % (w['document'], w.get('decoded'), tests[0]['native']))
    return 1 if tests[0]['native'].startswith('FAILED') else 0
