#!/usr/bin/env python3
"""Development aid: apply a patch (or a textual mutation) to a SCRATCH copy of crates/syntax/src, build the Verus
unit from it and print the failed obligations with their property classes.  /repo is not touched.
usage: try_unit.py PATCH.diff | try_unit.py --mut FILE OLD NEW"""
import os, shutil, subprocess, sys, tempfile
sys.path.insert(0, os.path.dirname(os.path.abspath(__file__)))
import prop_parser
from verus_run import locate
from common import Undecided
from rustcut import AnchorLost

d = tempfile.mkdtemp(prefix='tryunit.', dir='/var/tmp')
try:
    subprocess.run(['git', '-C', '/repo', 'worktree', 'prune'], check=False)
    shutil.copytree('/repo/crates', os.path.join(d, 'crates'), ignore=shutil.ignore_patterns('target'))
    if sys.argv[1] == '--mut':
        f, old, new = sys.argv[2:5]
        old = old.encode().decode('unicode_escape'); new = new.encode().decode('unicode_escape')
        p = os.path.join(d, f)
        s = open(p).read()
        assert s.count(old) == 1, 'site found %d times' % s.count(old)
        open(p, 'w').write(s.replace(old, new))
    else:
        subprocess.run(['patch', '-p1', '-s', '-d', d, '-i', os.path.abspath(sys.argv[1])], check=True)
    try:
        ex, fns, loops, text, linemap, info, unit, res = prop_parser.verify_with_inference(d, os.path.join(d, 'u'))
    except (Undecided, AnchorLost) as e:
        print('UNDECIDED', str(e)[:800]); sys.exit(2)
    print('verified', res['verified'], 'errors', res['errors'], 'tree builder in unit:', info.get('tree_builder_in_unit'), info.get('tree_builder_fallback_reason'))
    for f in res['failures']:
        loc = locate(linemap, f['line'])
        print(sorted(prop_parser.classify(f)), loc[0] if loc else None, '|', f['message'], '|', f['site'][:100], '|', ' ; '.join(c['text'][:80] for c in f['clauses']))
    if info.get('inference_log'): print(info['inference_log'])
finally:
    shutil.rmtree(d, ignore_errors=True)
