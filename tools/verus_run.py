"""Run Verus on a generated unit and classify every diagnostic (DESIGN.md section 2.4)."""
import json
import os
import re
from common import run, norm, Undecided

# messages that are failures of a *named obligation* (candidates for a violation)
OBLIGATION_MSGS = (
    'precondition not satisfied',
    'postcondition not satisfied',
    'assertion failed',
    'invariant not satisfied at end of loop body',
    'invariant not satisfied before loop',
    'loop invariant not satisfied',
    'loop ensures not satisfied',
    'decreases not satisfied at end of loop',
    'decreases not satisfied at continue',
    'could not prove termination',
    'possible arithmetic underflow/overflow',
    'possible bit shift underflow/overflow',
    'possible division by zero',
    'unreachable',
    'constant definition postcondition',
    'recommendation not met',
    'unable to prove post-condition of closure',
    'Call to non-static function fails to satisfy',
)
# messages that are neither: bookkeeping
IGNORE_MSGS = ('aborting due to', 'automatically chose triggers', 'trigger ', 'Verus printed one or more',
               'verification results', 'should have a snake case name', 'warnings emitted', 'warning emitted')


def is_obligation(msg):
    m = msg.strip()
    return any(m.startswith(x) for x in OBLIGATION_MSGS)


def verus(unit_path, timeout=900, threads=16, multiple_errors=10, extra=None):
    """-> dict(verified, errors, failures=[...], func_times, wall_s, cmd)"""
    cwd = os.path.dirname(unit_path)
    cmd = ['verus', os.path.basename(unit_path), '--error-format=json', '--output-json', '--time',
           '--multiple-errors', str(multiple_errors), '--num-threads', str(threads), '--rlimit', '60']
    if extra:
        cmd += extra
    rc, out, err, wall = run(cmd, cwd=cwd, timeout=timeout)
    if rc is None:
        raise Undecided('verus timed out after %ds on %s' % (timeout, unit_path))
    try:
        js = json.loads(out)
    except ValueError:
        raise Undecided('verus produced no JSON result (rc=%s): %s' % (rc, (err or out)[-600:]))
    res = js.get('verification-results', {})
    failures, tool_errors, rlimit_hits = [], [], []
    for line in err.split('\n'):
        line = line.strip()
        if not line.startswith('{'):
            continue
        try:
            d = json.loads(line)
        except ValueError:
            continue
        if d.get('level') not in ('error',):
            continue
        msg = d.get('message', '')
        if any(x in msg for x in IGNORE_MSGS):
            continue
        if is_obligation(msg):
            prim = [s for s in d.get('spans', []) if s.get('is_primary')]
            sec = [s for s in d.get('spans', []) if not s.get('is_primary')]

            def span_text(s):
                t = s.get('text') or []
                if not t:
                    return ''
                if len(t) == 1:
                    return t[0]['text'][t[0]['highlight_start'] - 1:t[0]['highlight_end'] - 1]
                return ' '.join(x['text'][x['highlight_start'] - 1:x['highlight_end'] - 1] for x in t)
            failures.append({
                'message': msg.strip(),
                'line': prim[0]['line_start'] if prim else None,
                'site': norm(span_text(prim[0])) if prim else '',
                'clauses': [{'label': s.get('label') or '', 'line': s['line_start'], 'text': norm(span_text(s))} for s in sec],
                'rendered': d.get('rendered', ''),
            })
        elif 'Resource limit (rlimit) exceeded' in msg and 'rlimit' not in IGNORE_MSGS:
            # a function whose proof ran into the resource limit: undecided for THAT function; it must not hide
            # named obligations that failed elsewhere in the unit (a failing variant often exhausts the limit somewhere)
            rlimit_hits.append((d.get('rendered') or msg)[:300])
        else:
            tool_errors.append(msg.strip() + ' :: ' + (d.get('rendered') or '')[:400])
    if rlimit_hits and not failures:
        tool_errors.append('Resource limit (rlimit) exceeded :: ' + rlimit_hits[0])
    if res.get('encountered-vir-error') or tool_errors or (rc != 0 and not failures and res.get('errors', 0) == 0):
        raise Undecided('verus could not process the unit (unsupported construct / type error / rlimit): '
                        + ' | '.join(tool_errors)[:1500] + ((err[-400:]) if not tool_errors else ''))
    times = {}
    try:
        for m in js['times-ms']['smt']['smt-run-module-times']:
            for f in m.get('function-breakdown', []):
                times[f['function']] = {'ms': f['time-micros'] / 1000.0, 'rlimit': f.get('rlimit'), 'mode': f.get('mode:'),
                                        'success': f.get('success')}
    except (KeyError, TypeError):
        pass
    return {'verified': res.get('verified', 0), 'errors': res.get('errors', 0), 'failures': failures,
            'func_times': times, 'wall_s': wall, 'cmd': ' '.join(cmd), 'rlimit_exceeded': rlimit_hits,
            'smt_ms': js.get('times-ms', {}).get('smt', {}).get('total'),
            'total_ms': js.get('times-ms', {}).get('total')}


def locate(linemap, line):
    """unit line -> (item name, repo path, repo item line) or None"""
    for lo, hi, path, rline, name in linemap:
        if lo <= line <= hi:
            return name, path, rline
    return None


def obligation_id(unit, fn, f):
    clause = ' | '.join(c['text'] for c in f['clauses'] if c['text'])
    return '%s :: %s :: %s :: %s%s' % (unit, fn or '<prelude>', f['message'], f['site'], (' :: ' + clause) if clause else '')
