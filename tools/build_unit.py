#!/usr/bin/env python3
"""Extract + weave the parser unit into a directory.  usage: build_unit.py REPO OUTDIR [--no-contracts]"""
import sys, os, json
sys.path.insert(0, os.path.dirname(os.path.abspath(__file__)))
import extract_parser, weave
V = os.path.dirname(os.path.dirname(os.path.abspath(__file__)))

def build(repo, outdir, contracts=True):
    ex = extract_parser.extract(repo)
    prelude = open(os.path.join(V, 'contracts/parser_prelude.rs')).read() + open(os.path.join(V, 'contracts/parser_prelude_bt.rs')).read()
    stubs = open(os.path.join(V, 'contracts/parser_stubs.rs')).read()
    fns, loops = weave.parse_spec(open(os.path.join(V, 'contracts/parser.spec')).read()) if contracts else ({}, {})
    top = (open(os.path.join(V, 'contracts/parser_top.rs')).read() + open(os.path.join(V, 'contracts/parser_top_bt.rs')).read()) if contracts else None
    text, linemap, info = weave.assemble(ex, prelude, fns, loops, stubs, top)
    os.makedirs(outdir, exist_ok=True)
    open(os.path.join(outdir, 'unit.rs'), 'w').write(text)
    json.dump(linemap, open(os.path.join(outdir, 'LINEMAP.json'), 'w'))
    return ex, text, linemap, info

if __name__ == '__main__':
    ex, text, lm, info = build(sys.argv[1], sys.argv[2], '--no-contracts' not in sys.argv)
    print(json.dumps(info)[:2000])
