#!/usr/bin/env python3
"""Development aid: run checks against a seeded change WITHOUT touching /repo's working tree: a scratch worktree of /repo's HEAD
gets the patch, the checks run with VERIF_REPO pointing at it and VERIF_EVIDENCE_DIR at a scratch directory; the worktree is
removed afterwards.  (Equivalent to `git -C /repo apply` + check + `git -C /repo checkout -- .`, but lets other work go on.)
usage: trial_seed.py NAME PATCH PROP[,PROP..] [--tier quick]"""
import json, os, subprocess, sys, shutil
name, patch, props = sys.argv[1:4]
wt = '/tmp/trial-%s' % name
ev = '/var/tmp/trial-ev/%s' % name
os.makedirs(ev, exist_ok=True)
subprocess.run(['git', '-C', '/repo', 'worktree', 'remove', '--force', wt], capture_output=True)
subprocess.run(['git', '-C', '/repo', 'worktree', 'add', '-q', '--detach', wt, 'HEAD'], check=True)
out = {}
try:
    subprocess.run(['git', '-C', wt, 'apply', os.path.abspath(patch)], check=True)
    env = dict(os.environ, VERIF_REPO=wt, VERIF_EVIDENCE_DIR=ev, VERIF_SCRATCH='/var/tmp/trial-scratch-%s' % name)
    for prop in props.split(','):
        r = subprocess.run(['/verif/check', prop, '--tier', 'quick'], capture_output=True, text=True, env=env, cwd='/verif')
        lines = [l for l in (r.stdout + r.stderr).splitlines() if l.startswith(('VIOLATION', 'KNOWN-FINDING', 'UNDECIDED'))]
        out[prop] = {'exit': r.returncode, 'lines': lines[:8], 'tail': (r.stdout + r.stderr)[-500:] if r.returncode not in (0, 1) else ''}
        print(name, prop, 'exit', r.returncode, lines[:6], flush=True)
finally:
    subprocess.run(['git', '-C', '/repo', 'worktree', 'remove', '--force', wt], capture_output=True)
    shutil.rmtree('/var/tmp/trial-scratch-%s' % name, ignore_errors=True)
json.dump(out, open(os.path.join(ev, 'result.json'), 'w'), indent=1)
