//! Native witness driver: runs the REAL `syntax::parse_module` of a scratch copy of the working
//! tree on concrete inputs and reports the concrete symptom of a C01/C02/C20 violation.
//! It never decides a property; it only attaches a replayable input to a violation that the
//! verifier has already reported, replays known findings, and serves `./check --replay`.
use std::io::Read;
use std::sync::mpsc;
use std::time::Duration;

fn json_str(s: &str) -> String {
    let mut o = String::from("\"");
    for c in s.chars() {
        match c {
            '"' => o.push_str("\\\""),
            '\\' => o.push_str("\\\\"),
            '\n' => o.push_str("\\n"),
            '\r' => o.push_str("\\r"),
            '\t' => o.push_str("\\t"),
            c if (c as u32) < 0x20 => o.push_str(&format!("\\u{:04x}", c as u32)),
            c => o.push(c),
        }
    }
    o.push('"');
    o
}

/// None = all good; Some(description) = symptom
fn check_one(src: &str) -> Option<(String, String)> {
    let res = std::panic::catch_unwind(|| {
        let parse = syntax::parse_module(src);
        let root = parse.syntax_node();
        let mut text = String::new();
        let mut pos: u32 = 0;
        let mut problem: Option<String> = None;
        let mut token_ranges: Vec<(usize, usize)> = Vec::new();
        for el in root.descendants_with_tokens() {
            if let Some(tok) = el.as_token() {
                let r = tok.text_range();
                token_ranges.push((u32::from(r.start()) as usize, u32::from(r.end()) as usize));
                if u32::from(r.start()) != pos && problem.is_none() {
                    problem = Some(format!("token range {:?} does not start at {}", r, pos));
                }
                if r.is_empty() && problem.is_none() {
                    problem = Some(format!("empty token range {:?}", r));
                }
                pos = u32::from(r.end());
                text.push_str(tok.text());
            }
        }
        if problem.is_none() && pos as usize != src.len() {
            problem = Some(format!("token ranges end at {} but the text has {} bytes", pos, src.len()));
        }
        if problem.is_none() && text != src {
            problem = Some(format!("leaf concatenation differs from the input: {:?}", text));
        }
        if problem.is_none() && u32::from(root.text_range().end()) as usize != src.len() {
            problem = Some("root range does not cover the text".to_string());
        }
        let mut range_problem = None;
        for e in parse.errors() {
            let (s, t) = (u32::from(e.range.start()) as usize, u32::from(e.range.end()) as usize);
            if t > src.len() || s > t || !src.is_char_boundary(s) || !src.is_char_boundary(t) {
                range_problem = Some(format!("syntax error range {}..{} outside the text / not on char boundaries", s, t));
            } else if !(s == src.len() && t == src.len()) && !token_ranges.contains(&(s, t)) {
                // C20, syntax errors: the whole range of a token, or empty at the end of the text
                range_problem = Some(format!("syntax error range {}..{} is neither a whole token nor the empty range at the end of the text", s, t));
            }
        }
        (problem, range_problem)
    });
    match res {
        Ok((Some(p), _)) => Some(("lossy".into(), p)),
        Ok((None, Some(p))) => Some(("error-range".into(), p)),
        Ok((None, None)) => None,
        Err(e) => {
            let msg = if let Some(s) = e.downcast_ref::<&str>() { s.to_string() } else if let Some(s) = e.downcast_ref::<String>() { s.clone() } else { "panic".into() };
            Some(("panic".into(), msg))
        }
    }
}

fn report(kind: &str, input: &str, observed: &str) -> ! {
    println!("{{\"kind\":{},\"input\":{},\"observed\":{}}}", json_str(kind), json_str(input), json_str(observed));
    std::process::exit(3)
}

const ALPHABET: &[&str] = &[
    "fn", "f", "g", "F", "_x", "1", "1.5", "\"s\"", "(", ")", "{", "}", "[", "]", ",", ":", ".", "..", "->", "<-", "=",
    "|", "|>", "+", "-", "!", "#", "<<", ">>", "<>", "==", "case", "let", "use", "type", "opaque", "pub", "const",
    "import", "as", "if", "@", "external", "assert", "todo", "panic", "/", "*", "// c\n", "/// d\n", "//// m\n", "\u{df}",
];
const CONTEXTS: &[(&str, &str)] = &[
    ("", ""),
    ("fn f() { ", " }"),
    ("fn f() { case x { ", " } }"),
    ("type T { ", " }"),
    ("fn f() { let ", " = 1 }"),
    ("import a.{", "}"),
    ("fn f(", ") {}"),
    ("const c: ", " = 1"),
    ("fn f() { g(", ") }"),
    ("fn f() { ", ""),
    ("\u{1F4A3} ", ""),
];

fn main() {
    std::panic::set_hook(Box::new(|_| {}));
    let args: Vec<String> = std::env::args().collect();
    let mode = args.get(1).map(|s| s.as_str()).unwrap_or("");
    let (tx_in, rx_in) = mpsc::channel::<String>();
    let (tx_out, rx_out) = mpsc::channel::<Option<(String, String)>>();
    // worker with a 2 MiB stack (what an LSP worker thread gets); a stack overflow aborts the process,
    // which the caller observes as death by signal
    std::thread::Builder::new()
        .stack_size(2 * 1024 * 1024)
        .spawn(move || {
            while let Ok(src) = rx_in.recv() {
                let r = check_one(&src);
                if tx_out.send(r).is_err() {
                    break;
                }
            }
        })
        .unwrap();
    let wanted: std::cell::RefCell<Option<Vec<String>>> = std::cell::RefCell::new(None);
    let run = |src: &str, limit_ms: u64| {
        tx_in.send(src.to_string()).unwrap();
        match rx_out.recv_timeout(Duration::from_millis(limit_ms)) {
            Ok(None) => {}
            Ok(Some((k, o))) => {
                if wanted.borrow().as_ref().map_or(true, |w| w.iter().any(|x| *x == k)) {
                    report(&k, src, &o)
                }
            }
            Err(_) => report("hang", src, &format!("no result after {} ms", limit_ms)),
        }
    };
    match mode {
        "one" => {
            let mut s = String::new();
            std::fs::File::open(&args[2]).unwrap().read_to_string(&mut s).unwrap();
            run(&s, 20_000);
            println!("{{\"kind\":\"ok\"}}");
        }
        "enumerate" => {
            let k: usize = args[2].parse().unwrap();
            let budget = Duration::from_secs(args[3].parse().unwrap());
            let seed: usize = args.get(4).and_then(|s| s.parse().ok()).unwrap_or(0);
            let kinds: Option<Vec<String>> = args.get(5).map(|s| s.split(',').map(|x| x.to_string()).collect());
            *wanted.borrow_mut() = kinds;
            let t0 = std::time::Instant::now();
            let n = ALPHABET.len();
            let mut count: u64 = 0;
            'outer: for len in 0..=k {
                let total = n.pow(len as u32);
                for (pre, post) in CONTEXTS {
                    for idx0 in 0..total {
                        let mut idx = (idx0 + seed * 7919) % total;
                        let mut s = String::from(*pre);
                        for _ in 0..len {
                            s.push_str(ALPHABET[idx % n]);
                            s.push(' ');
                            idx /= n;
                        }
                        s.push_str(post);
                        run(&s, 2_000);
                        count += 1;
                        if count % 4096 == 0 && t0.elapsed() > budget {
                            break 'outer;
                        }
                    }
                }
            }
            println!("{{\"kind\":\"ok\",\"inputs\":{}}}", count);
        }
        _ => {
            eprintln!("usage: verif_witness one <file> | enumerate <k> <budget_s> [seed]");
            std::process::exit(64);
        }
    }
}
