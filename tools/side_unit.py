"""Small deductive (Verus) units next to the Kani line-map unit: the real functions are extracted per run and verified
against contracts/<unit>.spec relative to the line map's contract.
  semtok (C19): convert::to_semantic_tokens, to_range, semantic_tokens::to_semantic_type_and_modifiers
  conv   (C15): convert::from_pos, from_range"""
import os
import re
import shutil

import extract_conv
import extract_semtok
import extract_vfs
import extract_lmap
import extract_fileset
import extract_diag
import extract_pmod
import weave
from common import VERIF, REPO, scratch, Undecided
from rustcut import AnchorLost
from verus_run import verus, locate, obligation_id

UNITS = {
    'semtok': {
        'extract': extract_semtok, 'spec': 'contracts/semtok.spec', 'prelude': 'contracts/semtok_prelude.rs',
        # vacuity guard: the precondition of the encoder's contract must be satisfiable (Verus has to REJECT this)
        'reach': ('proof fn reach_probe(lm: &LineMap, hls: Seq<HlRange>)\n    requires lm.ok(), hls_ok(lm, hls), hls.len() >= 2, hls[0].range.s() < hls[0].range.e(),\n{ assert(false); }\n'),
        'canaries': [
            {'name': 'verus: delta_start not relative to the previous token', 'file': 'crates/glas/src/convert.rs',
             'old': '                delta_start: start - prev_start,', 'new': '                delta_start: start,'},
            {'name': 'verus: previous column not reset on a new line', 'file': 'crates/glas/src/convert.rs',
             'old': '            if line != prev_line {\n                prev_start = 0;\n            }\n', 'new': ''},
        ],
    },
    'conv': {
        'extract': extract_conv, 'spec': 'contracts/conv.spec', 'prelude': 'contracts/conv_prelude.rs',
        # both outcomes of from_pos must be possible under the stand-ins' contracts
        'reach': ('proof fn reach_probe(lm: &LineMap, p: Position, q: Position, vfs: &Vfs, u: &Url, w: &Url)\n    requires pos_ok(lm, p), !pos_ok(lm, q), vfs.wf(), vfs.known(u) is Some, vfs.known(w) is None, vfs.live(vfs.known(u)->Some_0),\n{ assert(false); }\n'),
        'canaries': [
            {'name': 'verus: column is not validated', 'file': 'crates/glas/src/convert.rs',
             'old': '        pos.character <= line_map.end_col_for_line(pos.line),', 'new': '        pos.character <= u32::MAX,'},
            {'name': 'verus: reversed ranges are not rejected', 'file': 'crates/glas/src/convert.rs',
             'old': '    ensure!(start <= end, "Invalid range: {range:?} ends before it starts");\n', 'new': ''},
        ],
    },
}
UNITS['vfs'] = {
    'extract': extract_vfs, 'spec': 'contracts/vfs.spec', 'prelude': 'contracts/vfs_prelude.rs',
    # the precondition of the edit's contract must be satisfiable together with an accepted ranged change
    'reach': ('proof fn reach_probe(v: Vfs, file: FileId, d: TextRange, ins: &str)\n    requires v.files@.dom().contains(file.0 as int), v.files@[file.0 as int].0.len() <= u32::MAX, d.wf(),\n        d.end <= v.files@[file.0 as int].0.len(), v.files@[file.0 as int].0.is_char_boundary(d.start as usize), v.files@[file.0 as int].0.is_char_boundary(d.end as usize),\n{ assert(false); }\n'),
    'canaries': [
        {'name': 'verus: the splice does not delete', 'file': 'crates/glas/src/vfs.rs',
         'old': "                buf += &text[usize::from(del_range.end())..];", 'new': "                buf += &text[usize::from(del_range.start())..];"},
        {'name': 'verus: a range ending past the text is not rejected', 'file': 'crates/glas/src/vfs.rs',
         'old': '                    del_range.end() <= TextSize::of(text),', 'new': '                    del_range.start() <= TextSize::of(text),'},
        {'name': 'verus: remove_uri leaves the path in the file set (a later request would index a vacant slot)', 'file': 'crates/glas/src/vfs.rs',
         'old': '        self.local_file_set.remove_file(file);\n', 'new': ''},
        {'name': 'verus: set_path_content stores the text without registering the path', 'file': 'crates/glas/src/vfs.rs',
         'old': '                self.local_file_set.insert(file, path);\n', 'new': ''},
    ],
}
UNITS['lmap'] = {
    'extract': extract_lmap, 'spec': 'contracts/lmap.spec', 'prelude': 'contracts/lmap_prelude.rs',
    # the representation invariant together with the preconditions of the four functions must be satisfiable, with a line
    # that has a recorded multi-byte character (Verus has to REJECT this)
    'reach': ('proof fn reach_probe(lm: &LineMap, pos: int, line: int, col: int)\n    requires lm.wf(), 0 <= pos <= lm.len, lm.bnd(pos), 0 <= line <= lm.last(), 0 <= col <= lm.end_col(line), lm.ds(line).len() >= 2, lm.last() >= 1,\n{ assert(false); }\n'),
    'canaries': [
        {'name': 'verus: pos_for_line_col compares with <= (column directly after a multi-byte character)', 'file': 'crates/glas/src/vfs.rs',
         'old': '                if char_pos < col {\n                    col += diff as u32;', 'new': '                if char_pos <= col {\n                    col += diff as u32;'},
        {'name': 'verus: line_col_for_pos takes characters at the offset itself', 'file': 'crates/glas/src/vfs.rs',
         'old': '.take_while(|(char_pos, _)| *char_pos < col)', 'new': '.take_while(|(char_pos, _)| *char_pos <= col)'},
        {'name': 'verus: end_col_for_line forgets the line feed', 'file': 'crates/glas/src/vfs.rs',
         'old': 'self.line_starts[line as usize + 1] - self.line_starts[line as usize] - 1', 'new': 'self.line_starts[line as usize + 1] - self.line_starts[line as usize]'},
    ],
}
UNITS['fileset'] = {
    'extract': extract_fileset, 'spec': 'contracts/fileset.spec', 'prelude': 'contracts/fileset_prelude.rs',
    'reach': ('proof fn reach_probe(fs: FileSet, p: VfsPath, f: FileId)\n    requires fs.files().contains_key(p), fs.paths().contains_key(f), fs.files()[p] != f,\n{ assert(false); }\n'),
    'canaries': [
        {'name': 'verus: FileSet::remove_file leaves the path -> id entry behind', 'file': 'crates/ide/src/base.rs',
         'old': '            self.files.remove(&path);\n', 'new': ''},
    ],
}
UNITS['diag'] = {
    'extract': extract_diag, 'spec': 'contracts/diag.spec', 'prelude': 'contracts/diag_prelude.rs',
    'reach': ('proof fn reach_probe(e: SynError)\n    requires e.range.start < e.range.end,\n{ assert(false); }\n'),
    'canaries': [
        {'name': 'verus: a syntax-error diagnostic is given the range 0..end', 'file': 'crates/ide/src/diagnostic.rs',
         'old': '        Self::new(err.range, DiagnosticKind::SyntaxError(err.kind))', 'new': '        Self::new(TextRange::new(0.into(), err.range.end()), DiagnosticKind::SyntaxError(err.kind))'},
    ],
}
UNITS['pmod'] = {
    'extract': extract_pmod, 'spec': 'contracts/parser.spec', 'prelude': 'contracts/pmod_prelude.rs',
    'reach': ('proof fn reach_probe(raw: Seq<LexToken>)\n    requires raw.len() >= 2, is_tok(raw[0].kind), is_trivia_spec(raw[0].kind), is_tok(raw[1].kind), !is_trivia_spec(raw[1].kind),\n{ assert(false); }\n'),
    'canaries': [
        {'name': 'verus: parse_module filters whitespace only (doc comments reach the parser)', 'file': 'crates/syntax/src/parser.rs',
         'old': '        .filter(|&t| !t.kind.is_trivia())', 'new': '        .filter(|&t| !t.kind.is_whitespace())'},
    ],
}
COPY_DIRS = ('crates/glas/src', 'crates/ide/src/ide', 'crates/ide/src/base.rs', 'crates/ide/src/diagnostic.rs', 'crates/syntax/src')


def build(unit, repo, outdir, dropped_opt=None):
    u = UNITS[unit]
    ex = u['extract'].extract(repo)
    fns, loops = weave.parse_spec(open(os.path.join(VERIF, u['spec'])).read())
    loops.dropped_optional = set(dropped_opt or ())
    text, linemap, info = u['extract'].assemble(ex, open(os.path.join(VERIF, u['prelude'])).read(), fns, loops)
    info['optional_clauses_dropped'] = sorted(loops.dropped_optional)
    os.makedirs(outdir, exist_ok=True)
    path = os.path.join(outdir, '%s_unit.rs' % unit)
    open(path, 'w').write(text)
    return ex, text, linemap, info, path


def run(unit, repo=REPO, tag=None):
    """-> dict(status='verified'|'failed'|'undecided', ...)"""
    import prop_parser
    try:
        ex, text, linemap, info, path = build(unit, repo, os.path.join(scratch(), tag or unit))
        fns, loops = weave.parse_spec(open(os.path.join(VERIF, UNITS[unit]['spec'])).read())
        res = verus(path, multiple_errors=10, threads=4)
        # optional clauses (`/*@opt:ID*/`, written with ensures_optional) that the code does not establish are pruned Houdini-style
        dropped = set()
        for _ in range(4):
            ulines = text.split('\n')
            newly = set()
            for f in res['failures']:
                if f['line'] and f['message'].startswith('postcondition'):
                    om = re.search(r'/\*@(opt:[^*]+)\*/', ulines[f['line'] - 1])
                    if om:
                        newly.add(om.group(1))
            if not newly - dropped:
                break
            dropped |= newly
            ex, text, linemap, info, path = build(unit, repo, os.path.join(scratch(), tag or unit), dropped)
            res = verus(path, multiple_errors=10, threads=4)
    except (AnchorLost, weave.SpecError, Undecided, OSError) as e:
        return {'unit': unit, 'status': 'undecided', 'why': str(e)[:800]}
    fails = []
    for f in res['failures']:
        loc = locate(linemap, f['line'])
        fn = loc[0] if loc else None
        fails.append({'fn': fn, 'id': obligation_id(unit, fn, f), 'rendered': f['rendered'],
                      'where': ('%s:%d (%s)' % (loc[1], loc[2], fn)) if loc else '%s (hand-written specification)' % UNITS[unit]['prelude']})
    # a failure in a function that contains a closure without a contract is "needs contract", not a violation:
    # Verus knows nothing about what such a closure returns
    nclos = {}
    for it in ex['items']:
        if it.kind == 'fn':
            total = len(weave.find_closures(it.body))
            have = sum(1 for k in getattr(loops, 'closures', {}) if k[0] == it.name)
            if total > have:
                nclos[it.name] = total - have
    if fails and all(f['fn'] in nclos for f in fails):
        return {'unit': unit, 'status': 'undecided',
                'why': 'obligations failed only in functions that contain closures without a contract (needs contract, not a bug): %s' % sorted(set(f['fn'] for f in fails))}
    reach = None
    if not fails:
        rp = os.path.join(os.path.dirname(path), '%s_reach.rs' % unit)
        open(rp, 'w').write(text.replace('} // verus!', UNITS[unit]['reach'] + '} // verus!'))
        try:
            rr = verus(rp, multiple_errors=2, threads=4)
            reach = 'rejected-as-required' if rr['errors'] == 1 and len(rr['failures']) == 1 and 'assertion failed' in rr['failures'][0]['message'] else 'VACUOUS'
        except Undecided as e:
            reach = 'undecided: %s' % str(e)[:200]
    return {'unit': unit, 'status': 'failed' if fails else 'verified', 'reachability_guard': reach,
            'verified': res['verified'], 'errors': res['errors'], 'failures': fails,
            'cmd': res['cmd'], 'smt_ms': res['smt_ms'], 'total_ms': res['total_ms'], 'wall_s': res['wall_s'],
            'functions_under_contract': info['contracted'], 'loops_under_contract': info['loops_contracted'], 'bridged_contracts': info.get('bridged_contracts'), 'optional_clauses_dropped': info.get('optional_clauses_dropped'),
            'rewrites': ex['notes'], 'legend': ex.get('legend'), 'assumptions_scanned': prop_parser.scan_assumptions(text),
            'per_function_ms': {k: round(v['ms'], 1) for k, v in sorted(res['func_times'].items())}}


def canary(unit, c, idx):
    d = os.path.join(scratch(), '%scanary%d' % (unit, idx))
    for sub in COPY_DIRS:
        if os.path.isdir(os.path.join(REPO, sub)):
            shutil.copytree(os.path.join(REPO, sub), os.path.join(d, sub), dirs_exist_ok=True)
        else:
            os.makedirs(os.path.dirname(os.path.join(d, sub)), exist_ok=True)
            shutil.copy(os.path.join(REPO, sub), os.path.join(d, sub))
    p = os.path.join(d, c['file'])
    s = open(p).read()
    if s.count(c['old']) != 1:
        shutil.rmtree(d, ignore_errors=True)
        return {'name': c['name'], 'status': 'skipped', 'why': 'mutation site not found exactly once in the working tree'}
    open(p, 'w').write(s.replace(c['old'], c['new']))
    r = run(unit, d, '%scanary%d_u' % (unit, idx))
    shutil.rmtree(d, ignore_errors=True)
    if r['status'] == 'failed':
        return {'name': c['name'], 'status': 'tripped', 'obligation': r['failures'][0]['id'][:300]}
    return {'name': c['name'], 'status': 'NOT-TRIPPED' if r['status'] == 'verified' else 'undecided', 'why': r.get('why', '')[:200]}


if __name__ == '__main__':
    import json
    import sys
    unit = sys.argv[1]
    r = run(unit, sys.argv[2] if len(sys.argv) > 2 else REPO)
    print(json.dumps({k: v for k, v in r.items() if k not in ('per_function_ms',)}, indent=1)[:3000])
    for i, c in enumerate(UNITS[unit]['canaries']):
        print(canary(unit, c, i))
