"""Extractor for the diagnostic-conversion unit (Verus, C20): `struct Diagnostic`, `enum DiagnosticKind`, `Diagnostic::new` and
`impl From<syntax::Error> for Diagnostic` cut verbatim from crates/ide/src/diagnostic.rs - the step between the parser's error list
and what the server sends.  Rewrites: R16 the path `syntax::Error` -> `SynError` (single-module file), R9 derive lists reduced.  `TextRange`, `FileRange`, `syntax::Error`, `syntax::ErrorKind` are stand-ins (contracts/diag_prelude.rs)."""
import os
import re
from rustcut import Source, AnchorLost
from extract_parser import Item, split_fn, strip_lead, fns_in, drop_vis


def reduce_derive(text):
    def rep(mm):
        keep = [d for d in re.split(r'\s*,\s*', mm.group(1).strip()) if d in ('Clone', 'Copy', 'PartialEq', 'Eq')]
        return '#[derive(%s)]' % ', '.join(keep) if keep else ''
    return re.sub(r'#\[derive\(([^)]*)\)\]', rep, text)


def extract(repo):
    path = 'crates/ide/src/diagnostic.rs'
    src = Source(os.path.join(repo, path))
    items = []
    s, o, c = src.cut_braced(r'^pub struct Diagnostic\b', 0)
    items.append(Item('type', 'Diagnostic', 'pub struct Diagnostic ' + src.text[o:c + 1], path, src.line_of(s)))
    s, o, c = src.cut_braced(r'^pub enum DiagnosticKind\b', 0)
    body = re.sub(r'^\s*//.*$', '', src.text[o:c + 1], flags=re.M)
    items.append(Item('type', 'DiagnosticKind', '#[derive(Clone, Copy, PartialEq, Eq)]\npub enum DiagnosticKind ' + body, path, src.line_of(s)))
    s, o, c = src.cut_braced(r'^impl Diagnostic\b', 0)
    got = False
    for nm, fs, fo, fc in fns_in(src, 1, o + 1, c):
        if nm == 'new':
            h, b = split_fn(src, fs, fo, fc)
            items.append(Item('fn', 'Diagnostic::new', None, path, src.line_of(fs), header=re.sub(r'^\s*pub\s+', '', strip_lead(h)), body=b, owner='Diagnostic'))
            got = True
    if not got:
        raise AnchorLost('diagnostic.rs: no Diagnostic::new')
    s, o, c = src.cut_braced(r'^impl From<syntax::Error> for Diagnostic\b', 0)
    fl = fns_in(src, 1, o + 1, c)
    if len(fl) != 1 or fl[0][0] != 'from':
        raise AnchorLost('impl From<syntax::Error> for Diagnostic: expected exactly `fn from`')
    nm, fs, fo, fc = fl[0]
    h, b = split_fn(src, fs, fo, fc)
    h, n1 = re.subn(r'\bsyntax::Error\b', 'SynError', strip_lead(h))
    b, n2 = re.subn(r'\bsyntax::Error\b', 'SynError', b)
    items.append(Item('fn', 'Diagnostic::from', None, path, src.line_of(fs), header=h, body=b, owner='From<SynError> for Diagnostic'))
    return {'items': items, 'notes': ['R16 `syntax::Error` -> `SynError`: %d' % (n1 + n2 + 1)]}


def assemble(ex, prelude, fns_spec, loops_spec):
    import weave
    used_fn, used_loop, defaulted = set(), set(), []
    text = 'use vstd::prelude::*;\nverus! {\n' + prelude + '\n'
    linemap = []
    line = text.count('\n') + 1
    for it in ex['items']:
        if it.kind == 'type':
            chunk = it.text + '\n'
        else:
            chunk = 'impl %s {\n' % it.owner + weave.emit_fn(it, fns_spec, loops_spec, used_fn, used_loop, defaulted) + '}\n'
        n = chunk.count('\n')
        linemap.append((line, line + n - 1, it.path, it.line, it.name))
        text += chunk
        line += n
    text += '} // verus!\nfn main() {}\n'
    for nm in fns_spec:
        if nm not in used_fn:
            raise AnchorLost('@fn %s: no such function in the working tree' % nm)
    return text, linemap, {'contracted': sorted(used_fn), 'loops_contracted': []}
