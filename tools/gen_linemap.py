"""Harness generator for the LineMap / Vfs / convert / semantic-token Kani unit.

Documents are enumerated concretely (one #[kani::proof] per document and harness kind); byte
offsets, (line, column) pairs, LSP ranges and highlight tags are symbolic over their whole u32 /
enum domain.  Expected values come from tools/lsp_reference.py (the LSP client reference) and are
emitted as literal tables.
"""
import lsp_reference as ref

ALPHABET = ['a', '\n', 'ß', 'ℝ', '\U0001F4A3']   # 1-, (LF), 2-, 3-, 4-byte (surrogate pair) characters


def rs_str(s):
    out = '"'
    for c in s:
        if c == '\n':
            out += '\\n'
        elif c == '\r':
            out += '\\r'
        elif c == '"':
            out += '\\"'
        elif c == '\\':
            out += '\\\\'
        elif ord(c) < 0x7f and ord(c) >= 0x20:
            out += c
        else:
            out += '\\u{%x}' % ord(c)
    return out + '"'


PRELUDE = r'''
/// The input String gets spare capacity: with an exactly-sized buffer CBMC's pointer analysis
/// degenerates on the one-past-the-end pointer of an empty last line (a text ending in LF took
/// > 5 min instead of 2 s, measured).  Capacity is not observable by the code under check.
fn doc_string(s: &str) -> String {
    let mut t = String::with_capacity(s.len() + 8);
    t.push_str(s);
    t
}
/// same reason, for the buffer Vfs::change_file_content allocates itself: String::with_capacity(n)
/// promises capacity >= n, this refinement returns n + 8
fn stub_with_capacity(n: usize) -> String {
    unsafe { String::from_utf8_unchecked(Vec::with_capacity(n + 8)) }
}
fn mk_vfs(text: &str) -> (Vfs, FileId) {
    let (t, m) = LineMap::normalize(doc_string(text));
    // built with a vec! literal: a slab filled through insert/push costs CBMC > 400 s per splice instead of 20 s (measured)
    (Vfs { files: Slab { entries: vec![(Arc::<str>::from(t), Arc::new(m))] }, change: Change::default() }, FileId(0))
}
/// the line map equals the reference table of the text
fn table_eq(m: &LineMap, starts: &[u32], len: u32, diffs: &[(u32, &[(u32, u32)])]) -> bool {
    if m.len != len || m.line_starts.len() != starts.len() { return false; }
    let mut i = 0;
    while i < starts.len() { if m.line_starts[i] != starts[i] { return false; } i += 1; }
    if m.char_diffs.len() != diffs.len() { return false; }
    let mut j = 0;
    while j < diffs.len() {
        let (line, exp) = diffs[j];
        match m.char_diffs.get(&line) {
            None => return false,
            Some(v) => {
                if v.len() != exp.len() { return false; }
                let mut k = 0;
                while k < exp.len() { if v[k].0 != exp[k].0 || v[k].1 as u32 != exp[k].1 { return false; } k += 1; }
            }
        }
        j += 1;
    }
    true
}
/// executable copy of the representation invariant LineMap::wf that the Verus unit `lmap` assumes (contracts/lmap_prelude.rs)
fn lm_wf(m: &LineMap) -> bool {
    let ls = &m.line_starts;
    if ls.len() < 1 || ls[0] != 0 { return false; }
    let mut i = 1;
    while i < ls.len() { if !(ls[i - 1] < ls[i]) { return false; } i += 1; }
    if ls[ls.len() - 1] > m.len { return false; }
    let mut l = 0;
    while l < ls.len() {
        let end = if l + 1 >= ls.len() { m.len } else { ls[l + 1] - 1 };
        if end < ls[l] { return false; }
        let blen = end - ls[l];
        if let Some(ds) = m.char_diffs.get(&(l as u32)) {
            let mut k = 0;
            while k < ds.len() {
                let dv = ds[k].1 as u32;
                if !(1 <= dv && dv <= 2) { return false; }
                let next = if k + 1 < ds.len() { ds[k + 1].0 } else { blen };
                if ds[k].0 + 1 + dv > next { return false; }
                k += 1;
            }
        }
        l += 1;
    }
    true
}
/// executable copy of LineMap::bnd of the Verus unit: byte `off` of line `l` is not strictly inside a recorded multi-byte character
fn lm_mb(m: &LineMap, l: u32, off: u32) -> bool {
    if let Some(ds) = m.char_diffs.get(&l) {
        let mut k = 0;
        while k < ds.len() {
            if ds[k].0 < off && off < ds[k].0 + 1 + ds[k].1 as u32 { return false; }
            k += 1;
        }
    }
    true
}
/// reference: byte offset of a client position, None if it is not a valid position of the document
fn expected_offset(valid: &[(u32, u32, u32)], line: u32, col: u32) -> Option<u32> {
    let mut i = 0;
    let mut r = None;
    while i < valid.len() { if valid[i].0 == line && valid[i].1 == col { r = Some(valid[i].2); } i += 1; }
    r
}
fn any_tag() -> HlTag {
    let i: u8 = kani::any();
    kani::assume(i < 3);
    match i { 0 => HlTag::Function, 1 => HlTag::Module, _ => HlTag::Constructor }
}
/// reference: the LSP token type a highlight tag must be sent as
fn expected_type(tag: HlTag) -> SemanticTokenType {
    match tag { HlTag::Function => SemanticTokenType::FUNCTION, HlTag::Module => SemanticTokenType::NAMESPACE, HlTag::Constructor => SemanticTokenType::TYPE }
}
// error construction (format! inside anyhow's ensure!) dominates CBMC time; it is irrelevant to the contracts
fn stub_fmt(_args: std::fmt::Arguments<'_>) -> String { String::new() }
'''


def tables(doc):
    starts, diffs, ln = ref.line_table(doc)
    d = ', '.join('(%d, &[%s])' % (l, ', '.join('(%d, %d)' % x for x in v)) for l, v in sorted(diffs.items()))
    return '&[%s]' % ', '.join(str(s) for s in starts), str(ln), '&[%s]' % d


def pos_table(doc):
    n = ref.byte_len(doc)
    bs = set(ref.boundaries(doc))
    rows = []
    for o in range(n + 1):
        if o in bs:
            l, c = ref.client_line_col(doc, o)
            rows.append('(true, %d, %d)' % (l, c))
        else:
            rows.append('(false, 0, 0)')
    return '[%s]' % ', '.join(rows)


def unwind_for(doc, extra=0):
    return ref.byte_len(doc) + 6 + extra


def h_c14(idx, doc):
    starts, ln, diffs = tables(doc)
    n = ref.byte_len(doc)
    nlines = len(ref.lines(doc))
    linelens = ', '.join(str(ref.line_utf16_len(doc, l)) for l in range(nlines))
    has_astral = any(ord(c) > 0xFFFF for c in doc)
    return '''
#[kani::proof]
#[kani::unwind(%(unw)d)]
fn c14_d%(idx)d() {
    const DOC: &str = %(doc)s;
    const POS: [(bool, u32, u32); %(n1)d] = %(pos)s;
    const LINELEN: [u32; %(nlines)d] = [%(linelens)s];
    let (t, m) = LineMap::normalize(doc_string(DOC));
    assert!(t == DOC, "K1: a text without CR is stored unchanged");
    assert!(table_eq(&m, %(starts)s, %(len)s, %(diffs)s), "K1: line map equals the reference table");
    assert!(lm_wf(&m), "LineMap::wf, the representation invariant the Verus unit lmap assumes, holds for the line map normalize built");
    let o: u32 = kani::any();
    kani::assume(o <= %(n)d);
    let (is_boundary, el, ec) = POS[o as usize];
    if is_boundary {
        assert!(lm_mb(&m, el, o - m.line_starts[el as usize]), "LineMap::bnd of the Verus unit lmap: a character boundary is never strictly inside a recorded multi-byte character");
        let (l, c) = m.line_col_for_pos(TextSize::from(o));
        assert!(l == el && c == ec, "K2: the (line, UTF-16 column) the server reports is the one an LSP client computes");
        assert!(u32::from(m.pos_for_line_col(l, c)) == o, "K2: offset -> (line, col) -> offset is the identity");
        assert!(l <= m.last_line() && c <= m.end_col_for_line(l), "LineMap::ok, the contract the Verus units assume: the reported line exists and the column lies within it");
        let o2: u32 = kani::any();
        if o < o2 && o2 <= %(n)d && POS[o2 as usize].0 {
            let (l2, c2) = m.line_col_for_pos(TextSize::from(o2));
            assert!((l, c) < (l2, c2), "K2: the conversion is strictly monotone");
            let r = to_range(&m, TextRange::new(TextSize::from(o), TextSize::from(o2)));
            assert!(r.start == Position::new(l, c) && r.end == Position::new(l2, c2) && r.start < r.end, "to_range maps an ordered range to the ordered client range");
            %(cover2)s
        }
        kani::cover!(o == %(n)d, "offset at end of document");
    }
    let line: u32 = kani::any();
    kani::assume(line < %(nlines)d);
    assert!(m.end_col_for_line(line) == LINELEN[line as usize], "K4: end column of a line is its UTF-16 length");
    assert!(m.last_line() == %(nlines)d - 1, "K4: last line index");
}
''' % {'idx': idx, 'doc': rs_str(doc), 'n': n, 'n1': n + 1, 'pos': pos_table(doc), 'nlines': nlines, 'linelens': linelens,
       'starts': starts, 'len': ln, 'diffs': diffs, 'unw': unwind_for(doc),
       'cover2': 'kani::cover!(true, "two distinct character boundaries");' if n > 0 else ''}


def h_c13_cr(idx, doc_cr):
    doc = ref.strip_cr(doc_cr)
    starts, ln, diffs = tables(doc)
    return '''
#[kani::proof]
#[kani::unwind(%(unw)d)]
fn c13_cr_d%(idx)d() {
    let (t, m) = LineMap::normalize(doc_string(%(doc_cr)s));
    assert!(t == %(doc)s, "K1: the stored text is the editor's text with carriage returns removed");
    assert!(table_eq(&m, %(starts)s, %(len)s, %(diffs)s), "K1: line map equals the reference table of the stored text");
}
''' % {'idx': idx, 'doc_cr': rs_str(doc_cr), 'doc': rs_str(doc), 'starts': starts, 'len': ln, 'diffs': diffs, 'unw': unwind_for(doc_cr)}


def valid_table(doc):
    return '&[%s]' % ', '.join('(%d, %d, %d)' % v for v in ref.valid_positions(doc))


def h_pos(idx, doc, prop):
    """symbolic LSP range over the full u32 domain through convert::from_range."""
    body_valid = '''
    match (e1, e2) {
        (Some(s), Some(e)) if s <= e => {
            assert!(r.is_ok(), "T2: a valid client range is accepted");
            if let Ok((_, tr)) = &r {
                assert!(u32::from(tr.start()) == s && u32::from(tr.end()) == e, "T2/K3: an incoming position means the same offset on both sides");
            }
            @NONEMPTY_COVER@
        }
        _ => {%(invalid)s}
    }''' % {'invalid': '''
            // T3: an invalid client range (line or column beyond the document, column inside a surrogate pair,
            // reversed) is rejected here, or converts to a range that is not on character boundaries - which
            // Vfs::change_file_content rejects without touching the document (checked by the K5 harnesses).
            if let Ok((_, tr)) = &r {
                assert!(!(DOC.is_char_boundary(usize::from(tr.start())) && DOC.is_char_boundary(usize::from(tr.end()))),
                    "T3: a position beyond the document, inside a surrogate pair, or a reversed range is never converted to an applicable range");
                @ASTRAL_COVER@
            }
            kani::cover!(r.is_err(), "invalid range rejected");''' if prop == 'c15' else ''}
    body_valid = body_valid.replace('@NONEMPTY_COVER@', 'kani::cover!(s < e, "valid non-empty range");' if len(doc) > 0 else 'kani::cover!(true, "valid empty range");')
    body_valid = body_valid.replace('@ASTRAL_COVER@', 'kani::cover!(true, "column inside a surrogate pair converted to a non-boundary range");' if any(ord(c) > 0xFFFF for c in doc) else '')
    return '''
#[kani::proof]
#[kani::stub(alloc::fmt::format, stub_fmt)]
#[kani::unwind(%(unw)d)]
fn %(prop)s_pos_d%(idx)d() {
    const DOC: &str = %(doc)s;
    let (vfs, file) = mk_vfs(DOC);
    let (l1, c1, l2, c2): (u32, u32, u32, u32) = (kani::any(), kani::any(), kani::any(), kani::any());
    let e1 = expected_offset(%(valid)s, l1, c1);
    let e2 = expected_offset(%(valid)s, l2, c2);
    %(assume)s
    let r = from_range(&vfs, file, Range::new(Position::new(l1, c1), Position::new(l2, c2)));%(body)s
    std::mem::forget(r); // dropping an anyhow::Error walks its vtable: > 5 min in CBMC instead of 1 s (measured); not under check
}
''' % {'idx': idx, 'doc': rs_str(doc), 'valid': valid_table(doc), 'unw': unwind_for(doc, 2), 'prop': prop, 'body': body_valid,
       'assume': 'kani::assume(e1.is_some() && e2.is_some() && e1.unwrap() <= e2.unwrap()); // C13 quantifies over valid LSP ranges only' if prop == 'c13' else ''}


def splice_cases(doc, tier):
    """(s, e, ins) cases; offsets are char boundaries of doc.  Inserted texts cover: nothing, ASCII, LF, CRLF, an
    astral character, a lone CR and ASCII + CR (a CR must be dropped whatever the edit looks like - in particular
    when the edit keeps the byte length and contains no LF, the shape a "nothing moved" fast path would test)."""
    b = ref.boundaries(doc)
    n = ref.byte_len(doc)
    pairs = [(s, e) for s in b for e in b if s <= e]
    inss = ['', 'x', '\n', '\r\n', '\U0001F4A3', '\r', 'x\r']
    raw = doc.encode('utf-8')
    # same-length ASCII replacements that contain a CR
    same_len = []
    for (s, e) in pairs:
        seg = raw[s:e]
        if 1 <= len(seg) <= 2 and all(c < 0x80 and c != 0x0A for c in seg):
            same_len.append((s, e, '\r' if len(seg) == 1 else 'x\r'))
    if tier == 'quick':
        cls = set()
        cls.add((0, 0)); cls.add((n, n)); cls.add((0, n))
        if len(b) > 2:
            cls.add((b[1], b[1])); cls.add((b[1], b[2])); cls.add((b[-2], n))
        out = []
        for k, (s, e) in enumerate(sorted(cls)):
            out.append((s, e, inss[k % len(inss)]))
        for c in same_len[:2]:
            if c not in out:
                out.append(c)
        return out
    # thorough: every boundary pair, two inserted texts each (rotating through the seven), plus the same-length CR cases
    out = [(s, e, inss[(2 * k + j) % len(inss)]) for k, (s, e) in enumerate(pairs) for j in range(2)]
    return out + [c for c in same_len if c not in out]


def h_splice(idx, doc, cases, chunk):
    """several concrete splices through the real Vfs::change_file_content (and the real normalize)"""
    body = ''
    for (s, e, ins) in cases:
        new = ref.strip_cr(ref.client_apply(doc, s, e, ins))
        starts, ln, diffs = tables(new)
        body += '''
    {
        let (mut vfs, file) = mk_vfs(DOC);
        let r = vfs.change_file_content(file, Some(TextRange::new(TextSize::from(%(s)d), TextSize::from(%(e)d))), %(ins)s);
        assert!(r.is_ok(), "K5: an edit at valid offsets is applied");
        std::mem::forget(r);
        assert!(&*vfs.content_for_file(file) == %(new)s, "K5: server text == strip_cr(client_apply(client text, range, inserted text))");
        assert!(table_eq(&vfs.line_map_for_file(file), %(starts)s, %(len)s, %(diffs)s), "K5: the stored line map is the one of the new text");
        assert!(vfs.change.calls.len() == 1 && vfs.change.calls[0].0 == file && &*vfs.change.calls[0].1 == %(new)s, "K5: the analysis is told the same text exactly once");
    }''' % {'s': s, 'e': e, 'ins': rs_str(ins), 'new': rs_str(new), 'starts': starts, 'len': ln, 'diffs': diffs}
    n = ref.byte_len(doc)
    bset = set(ref.boundaries(doc))
    nb = [o for o in range(n + 1) if o not in bset]
    midchar = ''
    if nb:
        for (ms, me) in ((nb[0], nb[0]), (0, nb[0]), (nb[-1], n)):
            midchar += '''        let r = vfs.change_file_content(file, Some(TextRange::new(TextSize::from(%d), TextSize::from(%d))), "x");
        assert!(r.is_err() && &*vfs.content_for_file(file) == DOC && vfs.change.calls.is_empty(), "K5: a delete range inside a character is rejected and changes nothing");
        std::mem::forget(r);
''' % (ms, me)
    if chunk == 0:
      body += '''
    {
        let (mut vfs, file) = mk_vfs(DOC);
        let r = vfs.change_file_content(file, Some(TextRange::new(TextSize::from(%(n)d), TextSize::from(%(n1)d))), "x");
        assert!(r.is_err(), "K5: a delete range past the end is rejected");
        std::mem::forget(r);
        assert!(&*vfs.content_for_file(file) == DOC && vfs.change.calls.is_empty(), "K5: a rejected edit changes nothing");
%(midchar)s        let full = vfs.change_file_content(file, None, "a\\r\\nb");
        assert!(full.is_ok() && &*vfs.content_for_file(file) == "a\\nb", "K5: a full-text replacement stores the new text without CR");
        std::mem::forget(full);
    }''' % {'n': n, 'n1': n + 1, 'midchar': midchar}
    return '''
#[kani::proof]
#[kani::stub(alloc::fmt::format, stub_fmt)]
#[kani::stub(alloc::string::String::with_capacity, stub_with_capacity)]
#[kani::unwind(%(unw)d)]
fn c13_splice_d%(idx)d_%(chunk)d() {
    const DOC: &str = %(doc)s;%(body)s
}
''' % {'idx': idx, 'chunk': chunk, 'doc': rs_str(doc), 'body': body, 'unw': unwind_for(doc, 8)}


def h_reject(idx, doc):
    """C15: Vfs::change_file_content rejects every range that is not an applicable range of the document
    (past the end, or not on character boundaries) and changes nothing - the other half of T3."""
    n = ref.byte_len(doc)
    bset = set(ref.boundaries(doc))
    cases = [(n, n + 1), (n + 1, n + 2)]
    nb = [o for o in range(n + 1) if o not in bset]
    for o in nb:
        cases += [(o, o), (0, o), (o, n)]
    body = ''
    for (a, b) in cases:
        body += '''        let r = vfs.change_file_content(file, Some(TextRange::new(TextSize::from(%d), TextSize::from(%d))), "x");
        assert!(r.is_err() && &*vfs.content_for_file(file) == DOC && vfs.change.calls.is_empty(), "T3/K5: a delete range past the end or inside a character is rejected and changes nothing");
        std::mem::forget(r);
''' % (a, b)
    return '''
#[kani::proof]
#[kani::stub(alloc::fmt::format, stub_fmt)]
#[kani::stub(alloc::string::String::with_capacity, stub_with_capacity)]
#[kani::unwind(%(unw)d)]
fn c15_reject_d%(idx)d() {
    const DOC: &str = %(doc)s;
    let (mut vfs, file) = mk_vfs(DOC);
%(body)s    kani::cover!(true, "all inapplicable ranges tried");
}
''' % {'idx': idx, 'doc': rs_str(doc), 'body': body, 'unw': unwind_for(doc, 8)}, len(cases)


def expected_tokens(doc, hls):
    """reference encoding (LSP 3.17 semantic tokens, relative): list of
    (delta_line, delta_start, length, tag_index_in_hls)"""
    out = []
    pl, ps = 0, 0
    for k, (a, b) in enumerate(hls):
        (l1, c1), (l2, c2) = ref.client_line_col(doc, a), ref.client_line_col(doc, b)
        for line in range(l1, l2 + 1):
            start = c1 if line == l1 else 0
            end = c2 if line == l2 else ref.line_utf16_len(doc, line)
            if start == end:
                continue
            dl = line - pl
            ds = start - ps if dl == 0 else start
            out.append((dl, ds, end - start, k))
            pl, ps = line, start
    return out


def hl_pairs(doc, tier):
    b = ref.boundaries(doc)
    singles = [(s, e) for s in b for e in b if s < e]
    if tier == 'quick':
        singles = [(s, e) for (s, e) in singles if '\n' not in doc.encode('utf-8')[s:e].decode('utf-8')]
    pairs = [(h1, h2) for h1 in singles for h2 in singles if h1[1] <= h2[0]]
    return singles, pairs


def c19_cases(doc, tier):
    singles, pairs = hl_pairs(doc, tier)
    # pairs first, and among them those whose first token does not start at offset 0: they exercise the relative encoding
    pairs = sorted(pairs, key=lambda p: (p[0][0] == 0, p))
    return [list(p) for p in pairs] + [[h] for h in singles]


def h_c19(idx, chunk, doc, cases):
    body = ''
    for hls in cases:
        exp = expected_tokens(doc, hls)
        lets = ''.join('        let t%d = any_tag();\n' % k for k in range(len(hls)))
        mk = ', '.join('HlRange { range: TextRange::new(TextSize::from(%d), TextSize::from(%d)), tag: t%d }' % (a, b, k) for k, (a, b) in enumerate(hls))
        checks = ''
        for j, (dl, ds, ln, k) in enumerate(exp):
            checks += ('        assert!(toks[%d].delta_line == %d && toks[%d].delta_start == %d && toks[%d].length == %d, "S1: relative encoding of token %d decodes to the highlighted identifier");\n'
                       '        assert!(semantic_tokens::SEMANTIC_TOKEN_TYPES[toks[%d].token_type as usize] == expected_type(t%d) && toks[%d].token_modifiers_bitset == 0, "S1: token type is the index of the tag in the advertised legend");\n'
                       % (j, dl, j, ds, j, ln, j, j, k, j))
        body += '''
    {
%(lets)s        let hls = vec![%(mk)s];
        let toks = to_semantic_tokens(&m, &hls);
        assert!(toks.len() == %(n)d, "S1: one token per highlighted single-line piece, no empty tokens");
%(checks)s    }''' % {'lets': lets, 'mk': mk, 'n': len(exp), 'checks': checks}
    return '''
#[kani::proof]
#[kani::unwind(%(unw)d)]
fn c19_d%(idx)d_%(chunk)d() {
    const DOC: &str = %(doc)s;
    let (_, m) = LineMap::normalize(doc_string(DOC));%(body)s
}
''' % {'idx': idx, 'chunk': chunk, 'doc': rs_str(doc), 'body': body, 'unw': unwind_for(doc, 4)}


SESSION_PRELUDE = r'''
fn mk_server(text: &str) -> (Server, Url) {
    let (t, m) = LineMap::normalize(doc_string(text));
    let mut fs = FileSet::default();
    fs.insert(FileId(0), VfsPath(7));
    let vfs = Vfs { files: Slab { entries: vec![(Arc::<str>::from(t), Arc::new(m))], vacant: vec![false] }, local_file_set: fs, change: Change::default() };
    let mut opened = FxHashMap::default();
    opened.insert(Url(7), FileData { diagnostics_task: None });
    (Server { vfs: Arc::new(RwLock::new(vfs)), opened_files: opened, applied: 0, diagnostics_for: Vec::new() }, Url(7))
}
fn ch(range: Option<(u32, u32, u32, u32)>, text: &str) -> TextDocumentContentChangeEvent {
    TextDocumentContentChangeEvent {
        range: range.map(|(a, b, c, d)| Range::new(Position::new(a, b), Position::new(c, d))),
        range_length: None,
        text: doc_string(text),
    }
}
fn notify(uri: &Url, changes: Vec<TextDocumentContentChangeEvent>) -> DidChangeTextDocumentParams {
    DidChangeTextDocumentParams { text_document: VersionedTextDocumentIdentifier { uri: uri.clone(), version: 2 }, content_changes: changes }
}
/// LineMap::normalize restricted to what these harnesses feed it: a single line of ASCII without CR (asserted), for which the
/// line map is {line_starts: [0], no char diffs, len}.  The real normalize is checked on its own (K1); running it three times
/// per notification symbolically costs CBMC more than 15 minutes per harness (measured).
fn stub_normalize_ascii_line(text: String) -> (String, LineMap) {
    let b = text.as_bytes();
    let mut i = 0;
    while i < b.len() { assert!(b[i] < 0x80 && b[i] != b'\n' && b[i] != b'\r', "harness misuse: normalize stub needs one line of ASCII"); i += 1; }
    let len = b.len() as u32;
    (text, LineMap { line_starts: vec![0], char_diffs: FxHashMap::default(), len })
}
/// the document is known to the server and has this text
fn doc_is(srv: &Server, uri: &Url, text: &str) -> bool {
    let vfs = srv.vfs.read().unwrap();
    match vfs.file_for_uri(uri) {
        Ok(f) => &*vfs.content_for_file(f) == text,
        Err(e) => { std::mem::forget(e); false }
    }
}
/// the document was dropped: neither the file table nor the open-files table knows it any more
fn doc_forgotten(srv: &Server, uri: &Url) -> bool {
    let vfs = srv.vfs.read().unwrap();
    let gone = match vfs.file_for_uri(uri) { Ok(_) => false, Err(e) => { std::mem::forget(e); true } };
    gone && srv.opened_files.get(uri).is_none()
}
'''

# (name, document, [changes as (range | None, text)], expectation: text of the document afterwards, or None = forgotten)
SESSION_CASES = [
    ('valid_then_valid', 'a', [((0, 0, 0, 0), 'x'), ((0, 2, 0, 2), 'y')], 'xay'),
    ('rejected_then_ranged', 'a', [((5, 0, 5, 0), 'x'), ((0, 0, 0, 0), 'y')], None),
    ('rejected_then_full_text', 'a', [((0, 9, 0, 9), 'x'), (None, 'b')], None),
    ('valid_then_rejected', 'a', [((0, 1, 0, 1), 'x'), ((0, 1, 0, 0), 'y')], None),
    ('rejected_alone', 'a\n', [((2, 0, 2, 0), 'x')], None),
    ('three_changes_middle_rejected', 'a', [(None, 'b'), ((1, 0, 1, 0), 'x'), ((0, 0, 0, 1), '')], None),
]


def h_session(name, doc, changes, expect):
    chs = ', '.join('ch(%s, %s)' % ('None' if r is None else 'Some((%d, %d, %d, %d))' % r, rs_str(t)) for (r, t) in changes)
    if expect is None:
        post = ('    assert!(doc_forgotten(&srv, &uri), "C15: an edit that cannot be applied is dropped and the document forgotten");\n'
                '    kani::cover!(true, "notification with a rejected change handled to the end");')
    else:
        post = ('    assert!(doc_is(&srv, &uri, %s), "C15/C13: applicable changes of one notification are applied in order");\n'
                '    kani::cover!(true, "notification with applicable changes handled to the end");') % rs_str(expect)
    return '''
#[kani::proof]
#[kani::stub(alloc::fmt::format, stub_fmt)]
#[kani::stub(alloc::string::String::with_capacity, stub_with_capacity)]
#[kani::stub(LineMap::normalize, stub_normalize_ascii_line)]
#[kani::unwind(12)]
fn c15_session_%(name)s() {
    let (mut srv, uri) = mk_server(%(doc)s);
    let r = srv.on_did_change(notify(&uri, vec![%(chs)s]));
    assert!(matches!(r, ControlFlow::Continue(())), "C15: the notification handler keeps the server loop going");
    assert!(srv.applied == 1 && srv.diagnostics_for.len() == 1, "the analysis is updated once per notification");
%(post)s
}
''' % {'name': name, 'doc': rs_str(doc), 'chs': chs, 'post': post}


def generate_session(tier):
    """harnesses of the session variant (Server::on_did_change with several changes in one notification)"""
    import re
    text = re.sub(r'fn mk_vfs\(text: &str\) -> \(Vfs, FileId\) \{.*?\n\}\n', '', PRELUDE, flags=re.S) + SESSION_PRELUDE
    hs = []
    for name, doc, changes, expect in SESSION_CASES:
        text += h_session(name, doc, changes, expect)
        hs.append({'name': 'c15_session_%s' % name, 'doc': doc,
                   'what': 'Server::on_did_change on one notification with the changes %r: handled to the end without panic, document %s' % (changes, 'forgotten' if expect is None else 'becomes %r' % expect)})
    return text, hs


def generate(prop, tier, max_chars=None):
    """-> (harness module text, [{'name', 'doc', 'what'}])"""
    L = max_chars if max_chars is not None else (2 if tier == 'quick' else 3)
    docs = ref.documents(ALPHABET, L)
    text = PRELUDE
    hs = []
    if prop == 'C14':
        for i, d in enumerate(docs):
            text += h_c14(i, d)
            hs.append({'name': 'c14_d%d' % i, 'doc': d, 'what': 'K1 K2 K4 on this document; symbolic: two byte offsets over u32, line index'})
    elif prop == 'C13':
        docs_cr = [d for d in ref.documents(ALPHABET + ['\r'], L) if '\r' in d]
        for i, d in enumerate(docs_cr):
            text += h_c13_cr(i, d)
            hs.append({'name': 'c13_cr_d%d' % i, 'doc': d, 'what': 'K1 with carriage returns (CRLF, lone CR, CR at start/end)'})
        pdocs = docs if tier == 'thorough' else ['', 'a\n', '\na', '\u00df', '\u211da', '\U0001F4A3', '\U0001F4A3\U0001F4A3', 'a\U0001F4A3', '\U0001F4A3\n', '\n\U0001F4A3']
        for i, d in enumerate(docs):
            if d not in pdocs:
                continue
            text += h_pos(i, d, 'c13')
            hs.append({'name': 'c13_pos_d%d' % i, 'doc': d, 'what': 'K3/T2: every valid LSP range (symbolic over u32^4, assumed valid) converts to the client offsets'})
        sdocs = [d for d in docs if len(d) <= 2] if tier == 'thorough' else ['', 'a\n', '\u00df\U0001F4A3', '\U0001F4A3a', '\n\n', 'aa']
        for i, d in enumerate(docs):
            if d not in sdocs:
                continue
            cases = splice_cases(d, 'quick' if tier == 'quick' else 'thorough')
            for ch in range(len(cases)):
                text += h_splice(i, d, cases[ch:ch + 1], ch)
                hs.append({'name': 'c13_splice_d%d_%d' % (i, ch), 'doc': d, 'what': 'K5: concrete edit %r through the real change_file_content + normalize%s' % (cases[ch], ' (+ rejected ranges, full-text replacement)' if ch == 0 else '')})
    elif prop == 'C15':
        for i, d in enumerate(docs):
            text += h_pos(i, d, 'c15')
            hs.append({'name': 'c15_pos_d%d' % i, 'doc': d, 'what': 'T1-T3: arbitrary LSP range (symbolic over u32^4): no panic, valid accepted exactly, invalid rejected'})
        for i, d in enumerate(docs):
            if all(ord(c) < 0x80 for c in d) and d not in ('', 'a\n'):
                continue
            if tier == 'quick' and d not in ('', 'a\n', '\u00df', '\u211d', '\U0001F4A3', 'a\U0001F4A3', '\U0001F4A3a', '\u00df\U0001F4A3'):
                continue
            t, ncases = h_reject(i, d)
            text += t
            hs.append({'name': 'c15_reject_d%d' % i, 'doc': d, 'what': 'T3/K5: %d inapplicable delete ranges (past the end, inside a character) are rejected by change_file_content and change nothing' % ncases})
    elif prop == 'C19':
        # two tokens on one line with the first one not at column 0 need three characters
        if tier == 'quick':
            docs = ['aaa', 'a\U0001F4A3a', '\U0001F4A3aa', '\u00dfaa', '\u211daa', 'a\na', '\naa', '\U0001F4A3\n\U0001F4A3', '\U0001F4A3\U0001F4A3\U0001F4A3']
            per, max_chunks = 1, 3
        else:
            docs = [d for d in ref.documents(ALPHABET, 3) if d]
            per, max_chunks = 6, 4
        for i, d in enumerate(docs):
            cases = c19_cases(d, tier)
            for ch in range(0, min(len(cases), per * max_chunks), per):
                text += h_c19(i, ch // per, d, cases[ch:ch + per])
                hs.append({'name': 'c19_d%d_%d' % (i, ch // per), 'doc': d,
                           'what': 'S1: %d highlight lists (1-2 single-line ranges%s, symbolic tags) against the reference encoding' % (len(cases[ch:ch + per]), '' if tier == 'quick' else ' and multi-line ranges')})
    return text, hs
