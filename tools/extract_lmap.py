"""Extractor for the line-map query unit (Verus, C14; the contract C13 / C15 / C19's deductive units assume):
`struct LineMap`, `enum CodeUnitsDiff` and LineMap::{last_line, pos_for_line_col, line_col_for_pos, end_col_for_line},
cut verbatim from crates/glas/src/vfs.rs, with

  R23  `for &(A, B) in X {`  (or `for (A, B) in X.iter().copied() {`)  ->  `for verif_it in X { let (A, B) = *verif_it;`
       (the definition of an irrefutable reference pattern in a `for`; the element type is Copy.  Verus: "ref patterns")
  R24  `RECV.partition_point(|&I| E)`  ->  `verif_partition_point(&RECV, |I| E)`
       (external_body helper whose body is `s.partition_point(|&it| f(it))`; assumed contract: the standard library's
       meaning of partition_point on a partitioned slice.  `|&I|` over `&u32` items and `|I|` over `u32` items denote the
       same predicate)
  R25  `X.iter().take_while(C1).map(C2).sum::<u32>()`  ->  `verif_iter_take_while_map_sum(X, C1', C2')`
       `X.iter().map(C).sum::<u32>()`                   ->  `verif_iter_map_sum(X, C')`
       (external_body helpers whose bodies are these iterator chains; assumed contract: the standard library's meaning of
       take_while / map / sum, with "no overflow in sum" as a precondition).  The closures keep their bodies; a tuple pattern
       parameter is desugared as in R19: `|(A, _)| E` -> `|verif_p0| { let (A, _) = verif_p0; E }`,
       `|&(_, D)| E` -> `|verif_p0| { let (_, D) = *verif_p0; E }`   (Verus rejects pattern parameters of closures)
  R5   visibility qualifiers, `#[allow(..)]` attributes and doc comments on the items dropped;  R9  derive lists reduced

`rustc_hash::FxHashMap` (a finite map with `get`), `TextSize` (a u32 with From/Into) are stand-ins with assumed contracts
(contracts/lmap_prelude.rs).  Anything outside these rewrites stops the extraction (AnchorLost = this unit is undecided and the
bounded Kani harnesses alone decide)."""
import os
import re
from rustcut import Source, AnchorLost, code_mask, match_brace
from extract_parser import Item, split_fn, strip_lead, fns_in, drop_vis

FNS = ('last_line', 'pos_for_line_col', 'line_col_for_pos', 'end_col_for_line')


def _first_code_match(rx, body):
    mask = code_mask(body)
    for cand in rx.finditer(body):
        if mask[cand.start()]:
            return cand, mask
    return None, mask


def rewrite_for_refpat(body):
    """R23"""
    n = 0
    rx = re.compile(r'\bfor\s+&\s*(\([^()]*\))\s+in\s+([^{}]+?)\s*\{')
    # R23b: `for (A, B) in X.iter().copied() {` - the same loop written with the Copy adapter
    rxb = re.compile(r'\bfor\s+(\([^()]*\))\s+in\s+([\w\.]+?)\s*\.\s*iter\s*\(\s*\)\s*\.\s*copied\s*\(\s*\)\s*\{')
    while True:
        mm, mask = _first_code_match(rx, body)
        if not mm:
            mm, mask = _first_code_match(rxb, body)
        if not mm:
            return body, n
        body = body[:mm.start()] + 'for verif_it in %s { let %s = *verif_it;' % (mm.group(2).strip(), ' '.join(mm.group(1).split())) + body[mm.end():]
        n += 1


def _closure_arg(text):
    """one closure argument `|PARAMS| BODY` -> (params, body) with BODY an expression or a block"""
    mm = re.match(r'\s*\|([^|]*)\|\s*(.*?)\s*$', text, re.S)
    if not mm:
        raise AnchorLost('iterator-chain argument is not a closure: %r' % text[:60])
    return mm.group(1).strip(), mm.group(2).strip()


def _desugar_tuple_param(params, cbody):
    """`|(A, _)| E` -> `|verif_p0| { let (A, _) = verif_p0; E }`;  `|&(A, B)| E` -> `|verif_p0| { let (A, B) = *verif_p0; E }`;
    a plain identifier parameter is left alone"""
    if re.match(r'^\w+$', params):
        return '|%s| %s' % (params, cbody)
    mm = re.match(r'^(&?)\s*(\([^()]*\))$', params)
    if not mm:
        raise AnchorLost('closure parameter pattern outside R25: |%s|' % params)
    if cbody.startswith('{') and cbody.endswith('}'):
        cbody = cbody[1:-1].strip()
    return '|verif_p0| { let %s = %sverif_p0; %s }' % (' '.join(mm.group(2).split()), '*' if mm.group(1) else '', ' '.join(cbody.split()))


def _call_args(body, mask, open_idx):
    close = match_brace(body, mask, open_idx, '(', ')')
    return body[open_idx + 1:close], close


def rewrite_sum_chains(body):
    """R25"""
    n = 0
    rx = re.compile(r'(\b[\w\.]+?)\s*\.\s*iter\s*\(\s*\)\s*\.\s*(take_while|map)\s*\(')
    while True:
        mm, mask = _first_code_match(rx, body)
        if not mm:
            return body, n
        recv = mm.group(1)
        a1, c1 = _call_args(body, mask, mm.end() - 1)
        rest = body[c1 + 1:]
        if mm.group(2) == 'take_while':
            m2 = re.match(r'\s*\.\s*map\s*\(', rest)
            if not m2:
                raise AnchorLost('take_while chain not of the form X.iter().take_while(..).map(..).sum::<u32>()')
            a2, c2 = _call_args(body, mask, c1 + 1 + m2.end() - 1)
            rest = body[c2 + 1:]
            end0 = c2 + 1
        else:
            a2, end0 = None, c1 + 1
        m3 = re.match(r'\s*\.\s*sum\s*::\s*<\s*u32\s*>\s*\(\s*\)', rest)
        if not m3:
            raise AnchorLost('iterator chain does not end in .sum::<u32>()')
        cl1 = _desugar_tuple_param(*_closure_arg(a1))
        if a2 is None:
            rep = 'verif_iter_map_sum(%s, %s)' % (recv, cl1)
        else:
            rep = 'verif_iter_take_while_map_sum(%s, %s, %s)' % (recv, cl1, _desugar_tuple_param(*_closure_arg(a2)))
        body = body[:mm.start()] + rep + body[end0 + m3.end():]
        n += 1


def rewrite_partition_point(body):
    """R24"""
    n = 0
    rx = re.compile(r'(\bself(?:\s*\.\s*\w+)+?|\b\w+)\s*\.\s*partition_point\s*\(')
    while True:
        mm, mask = _first_code_match(rx, body)
        if not mm:
            return body, n
        a, c = _call_args(body, mask, mm.end() - 1)
        params, cbody = _closure_arg(a)
        pm = re.match(r'^&\s*(\w+)$', params)
        if not pm:
            raise AnchorLost('partition_point predicate not of the form |&x| E')
        recv = ''.join(mm.group(1).split())
        body = body[:mm.start()] + 'verif_partition_point(&%s, |%s| %s)' % (recv, pm.group(1), ' '.join(cbody.split())) + body[c + 1:]
        n += 1


UNSUPPORTED = re.compile(r'\.\s*(iter|into_iter|zip|filter|map|take_while|skip_while|fold|sum|count|chain|rev|enumerate|binary_search|partition_point|position|find|any|all|last|windows)\s*(::\s*<[^>]*>\s*)?\(')


def strip_item_lead(text):
    """doc comments and #[allow(..)] attributes in front of an item"""
    lines = [l for l in text.split('\n') if not re.match(r'\s*(///|//!|#\[allow\b|#\[inline\b)', l)]
    return '\n'.join(lines)


def reduce_derive(text):
    def rep(mm):
        keep = [d for d in re.split(r'\s*,\s*', mm.group(1).strip()) if d in ('Clone', 'Copy', 'PartialEq', 'Eq')]
        return '#[derive(%s)]' % ', '.join(keep) if keep else ''
    return re.sub(r'#\[derive\(([^)]*)\)\]', rep, text)


def extract(repo):
    path = 'crates/glas/src/vfs.rs'
    vfs = Source(os.path.join(repo, path))
    items, notes = [], []
    s, o, c = vfs.cut_braced(r'^pub struct LineMap\b', 0)
    st = strip_item_lead(vfs.text[o:c + 1])
    items.append(Item('type', 'LineMap', 'struct LineMap ' + drop_vis(st), path, vfs.line_of(s)))
    s, o, c = vfs.cut_braced(r'^(pub(\([a-z]+\))?\s+)?enum CodeUnitsDiff\b', 0)
    s0 = vfs.attrs_start(s)
    items.append(Item('type', 'CodeUnitsDiff', drop_vis(reduce_derive(strip_item_lead(vfs.text[s0:c + 1]))), path, vfs.line_of(s)))
    s, o, c = vfs.cut_braced(r'^impl LineMap\b', 0)
    found = {}
    all_fns = []
    for nm, fs, fo, fc in fns_in(vfs, 1, o + 1, c):
        all_fns.append(nm)
        if nm in FNS:
            found[nm] = (fs, fo, fc)
    for nm in FNS:
        if nm not in found:
            raise AnchorLost('vfs.rs: no LineMap::%s' % nm)
        fs, fo, fc = found[nm]
        h, b = split_fn(vfs, fs, fo, fc)
        b, n23 = rewrite_for_refpat(b)
        b, n24 = rewrite_partition_point(b)
        b, n25 = rewrite_sum_chains(b)
        code = ''.join(ch if m else ' ' for ch, m in zip(b, code_mask(b)))
        bad = UNSUPPORTED.search(code)
        if bad:
            raise AnchorLost('LineMap::%s uses `%s`, an iterator/slice adapter outside the rewrites R23-R25' % (nm, bad.group(0).strip()))
        other = [x for x in all_fns if x not in FNS and x != 'normalize' and re.search(r'\b(self\s*\.|Self\s*::)\s*%s\s*\(' % re.escape(x), code)]
        if other:
            raise AnchorLost('LineMap::%s calls the helper(s) %s, which have no contract in this unit (needs contract)' % (nm, other))
        notes.append('%s: R23 for-patterns: %d, R24 partition_point: %d, R25 iterator sums: %d' % (nm, n23, n24, n25))
        h = re.sub(r'^\s*pub(\([a-z]+\))?\s+', '', strip_lead(h))
        items.append(Item('fn', 'LineMap::' + nm, None, path, vfs.line_of(fs), header=h, body=b, owner='LineMap'))
    return {'items': items, 'notes': notes}


SUBST = [(r'\bself\.lc\(', 'self.lc32('), (r'\bself\.end_col\(', 'self.end_col32('), (r'\bself\.last\(\)', 'self.last32()'), (r'\bself\.tlen\(\)', 'self.tlen32()'),
         (r'\bself\.bnd\(', 'self.bnd32('), (r'\bself\.p4lc\(', 'self.p4lc32('), (r'\blex_le\(', 'lex_le32(')]
BRIDGE_PROOF = {'line_col_for_pos': 'lemma_bridge_pos(self, pos.raw);', 'end_col_for_line': 'lemma_bridge_line(self, line as int);',
                'last_line': 'lemma_bridge_line(self, 0);', 'pos_for_line_col': 'lemma_bridge_line(self, line as int);'}


def _subst(t):
    for rx, rep in SUBST:
        t = re.sub(rx, rep, t)
    return t


def bridge():
    """wrappers around the real functions carrying, textually, the contracts that the semtok and conv units ASSUME for their LineMap
    stand-ins, and the assumed predicate LineMap::ok as a lemma (see the end of contracts/lmap_prelude.rs)"""
    verif = os.path.dirname(os.path.dirname(os.path.abspath(__file__)))
    out, names = [], []
    for unit in ('semtok', 'conv'):
        text = open(os.path.join(verif, 'contracts/%s_prelude.rs' % unit)).read()
        for line in text.split('\n'):
            mm = re.match(r'\s*pub fn (\w+)\(&self(?:, (.*?))?\) -> \((r: .*?)\)\s+(?:requires (.*?)\s+)?ensures (.*?) \{ unimplemented!\(\) \}\s*$', line)
            if not mm or mm.group(1) not in BRIDGE_PROOF:
                continue
            nm, params, ret, req, ens = mm.groups()
            args = ', '.join(a.split(':')[0].strip() for a in (params or '').split(',') if a.strip())
            out.append('    // the contract assumed for LineMap::%s in contracts/%s_prelude.rs, proved here for the real function\n'
                       '    fn bridge_%s_%s(&self%s) -> (%s)\n        requires self.wf()%s\n        ensures %s\n    { proof { %s } self.%s(%s) }\n'
                       % (nm, unit, unit, nm, (', ' + params) if params else '', ret, (', ' + _subst(req)) if req else '', _subst(ens), BRIDGE_PROOF[nm], nm, args))
            names.append('%s:%s' % (unit, nm))
        if unit == 'semtok':
            om = re.search(r'pub open spec fn ok\(&self\) -> bool \{\n(.*?)\n    \}', text, re.S)
            if not om:
                raise AnchorLost('contracts/semtok_prelude.rs: LineMap::ok not found')
            out.append('    // the predicate LineMap::ok that the encoder unit assumes, as a lemma\n    proof fn bridge_semtok_ok(&self)\n        requires self.wf()\n        ensures ({\n%s\n        })\n'
                       '    {\n        assert forall|a: u32| a <= self.tlen32() && self.bnd32(a) implies (#[trigger] self.lc32(a)).0 <= self.last32() && self.lc32(a).1 <= self.end_col32(self.lc32(a).0) && self.lc32(a).0 == self.lc(a as int).0 && self.lc32(a).1 == self.lc(a as int).1 by { lemma_bridge_pos(self, a); }\n'
                       '        assert forall|a: u32, b: u32| a <= b <= self.tlen32() && self.bnd32(a) && self.bnd32(b) implies lex_le32(#[trigger] self.lc32(a), #[trigger] self.lc32(b)) by { lemma_bridge_pos(self, a); lemma_bridge_pos(self, b); if a < b { thm_mono(self, a as int, b as int); } }\n    }\n'
                       % _subst(om.group(1)))
            names.append('semtok:ok')
    if len(names) < 7:
        raise AnchorLost('bridge: expected 6 stand-in contracts and LineMap::ok in the semtok / conv preludes, found %s' % names)
    return ''.join(out), names


def assemble(ex, prelude, fns_spec, loops_spec):
    import weave
    used_fn, used_loop, defaulted = set(), set(), []
    pre_a, _, pre_b = prelude.partition('// ===== specification =====')
    chunks = [('use vstd::prelude::*;\nverus! {\n', None), (pre_a + '\n', None)]
    for it in ex['items']:
        if it.kind == 'type':
            chunks.append((it.text + '\n', it))
    chunks.append(('// ===== specification =====' + pre_b + '\nimpl LineMap {\n', None))
    for it in ex['items']:
        if it.kind == 'fn':
            chunks.append((weave.emit_fn(it, fns_spec, loops_spec, used_fn, used_loop, defaulted), it))
    btext, bnames = bridge()
    chunks.append(('// ===== bridge (generated): ' + ', '.join(bnames) + '\n' + btext, None))
    chunks.append(('}\n} // verus!\nfn main() {}\n', None))
    for nm in fns_spec:
        if nm not in used_fn:
            raise AnchorLost('@fn %s: no such function in the working tree' % nm)
    for key in loops_spec:
        if key not in used_loop:
            raise AnchorLost('@loop %s#%d: no such loop in the working tree' % key)
    for key in getattr(loops_spec, 'closures', {}):
        if (key[0], 'closure', key[1]) not in used_loop:
            raise AnchorLost('@closure %s#%d: no such closure in the working tree' % key)
    text, linemap, line = '', [], 1
    for chunk, it in chunks:
        n = chunk.count('\n')
        if it is not None:
            linemap.append((line, line + n - 1, it.path, it.line, it.name))
        text += chunk
        line += n
    return text, linemap, {'contracted': sorted(used_fn), 'loops_contracted': sorted('%s#%d' % k for k in used_loop if len(k) == 2), 'bridged_contracts': bnames}


if __name__ == '__main__':
    import sys
    ex = extract(sys.argv[1] if len(sys.argv) > 1 else '/repo')
    for it in ex['items']:
        print('// ----', it.name)
        print(it.text if it.kind == 'type' else it.header + it.body)
    print(ex['notes'])
