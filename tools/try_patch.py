#!/usr/bin/env python3
"""Development aid: apply a patch file to /repo, run checks, always revert.
usage: try_patch.py PATCH PROP[,PROP..]"""
import subprocess, sys
patch, props = sys.argv[1:3]
subprocess.run(['git', '-C', '/repo', 'checkout', '--', '.'], check=True)
subprocess.run(['git', '-C', '/repo', 'apply', patch], check=True)
try:
    for prop in props.split(','):
        r = subprocess.run(['/verif/check', prop], capture_output=True, text=True)
        print(prop, 'exit', r.returncode)
        print(r.stdout[-1200:])
finally:
    subprocess.run(['git', '-C', '/repo', 'checkout', '--', '.'])
