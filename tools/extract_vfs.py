"""Extractor for the Vfs unit (Verus, C13 / C15): Vfs::change_file_content, verbatim, with

  R17  `ensure!(COND, ..);` -> `if !(COND) { return Err(verif_error()); }`          (as in extract_conv.py)
  R20  `BUF += EXPR;` -> `BUF.push_str(EXPR);`   (what `impl AddAssign<&str> for String` does; Verus has a specification for
       push_str but the AddAssign trait carries an unspecified precondition)
  R21  `&TEXT[..A]` -> `verif_str_to(TEXT, A)`, `&TEXT[A..]` -> `verif_str_from(TEXT, A)`: external_body helpers whose bodies are
       these slicing expressions and whose assumed contract is str slicing (requires: inside the text, on a character
       boundary; the result is the uninterpreted cut `str_to` / `str_from` of the text)
  R22  the statement `log::trace!(..);` is dropped

`Slab`, `Arc`, `String`, `TextSize/TextRange`, `anyhow`, `ide::Change`, `ide::FileId` and `LineMap::normalize` are
stand-ins with assumed contracts (contracts/vfs_prelude.rs); `struct Vfs` is reduced to the two fields the method touches."""
import os
import re
from rustcut import Source, AnchorLost, code_mask, match_brace
from extract_parser import Item, split_fn, strip_lead, fns_in
from extract_conv import rewrite_ensure


def extract(repo):
    vfs = Source(os.path.join(repo, 'crates/glas/src/vfs.rs'))
    s, o, c = vfs.cut_braced(r'^impl Vfs\b', 0)
    for nm, fs, fo, fc in fns_in(vfs, 1, o + 1, c):
        if nm == 'change_file_content':
            h, b = split_fn(vfs, fs, fo, fc)
            b, n17 = rewrite_ensure(b)
            b, n22 = re.subn(r'^[ \t]*log::\w+!\s*\([^;]*\);[ \t]*\n', '', b, flags=re.M)
            b, n20 = re.subn(r'^([ \t]*)(\w+)\s*\+=\s*([^;]+);', r'\1\2.push_str(\3);', b, flags=re.M)
            b, n21a = re.subn(r'&\s*(\w+)\s*\[\s*\.\.\s*([^\[\]]+?)\s*\]', r'verif_str_to(\1, \2)', b)
            b, n21b = re.subn(r'&\s*(\w+)\s*\[\s*([^\[\]]+?)\s*\.\.\s*\]', r'verif_str_from(\1, \2)', b)
            code = ''.join(ch if m else ' ' for ch, m in zip(b, code_mask(b)))
            if re.search(r'\b(bail|anyhow|format|ensure|log::\w+)!\s*\(', code) or re.search(r'\+=', code) or re.search(r'\[[^\]]*\.\.[^\]]*\]', code):
                raise AnchorLost('Vfs::change_file_content uses a construct outside the rewrites R17/R20/R21/R22')
            h = re.sub(r'^\s*pub\s+', '', strip_lead(h))
            item = Item('fn', 'Vfs::change_file_content', None, 'crates/glas/src/vfs.rs', vfs.line_of(fs), header=h, body=b, owner='Vfs')
            return {'items': [item], 'notes': ['R17 ensure! rewritten: %d, R20 `+=` -> push_str: %d, R21 slicing -> helpers: %d, R22 log statements dropped: %d' % (n17, n20, n21a + n21b, n22)]}
    raise AnchorLost('vfs.rs: no Vfs::change_file_content')


def assemble(ex, prelude, fns_spec, loops_spec):
    import weave
    used_fn, used_loop, defaulted = set(), set(), []
    it = ex['items'][0]
    body = weave.emit_fn(it, fns_spec, loops_spec, used_fn, used_loop, defaulted)
    head = 'use vstd::prelude::*;\nuse std::sync::Arc;\nverus! {\n' + prelude + '\nimpl Vfs {\n'
    text = head + body + '}\n} // verus!\nfn main() {}\n'
    if 'Vfs::change_file_content' not in used_fn:
        raise AnchorLost('@fn Vfs::change_file_content: no contract')
    lo = head.count('\n') + 1
    linemap = [(lo, lo + body.count('\n'), it.path, it.line, it.name)]
    return text, linemap, {'contracted': sorted(used_fn), 'loops_contracted': []}
