"""Extractor for the Vfs unit (Verus, C13 / C15): Vfs::{set_path_content, change_file_content, remove_uri, file_for_path,
file_for_uri, content_for_file, line_map_for_file}, verbatim, with

  R17  `ensure!(COND, ..);` -> `if !(COND) { return Err(verif_error()); }`          (as in extract_conv.py)
  R20  `BUF += EXPR;` -> `BUF.push_str(EXPR);`   (what `impl AddAssign<&str> for String` does; Verus has a specification for
       push_str but the AddAssign trait carries an unspecified precondition)
  R21  `&TEXT[..A]` -> `verif_str_to(TEXT, A)`, `&TEXT[A..]` -> `verif_str_from(TEXT, A)`: external_body helpers whose bodies are
       these slicing expressions and whose assumed contract is str slicing (requires: inside the text, on a character
       boundary; the result is the uninterpreted cut `str_to` / `str_from` of the text)
  R22  the statement `log::trace!(..);` is dropped
  R27  `RECV.with_context(|| format!(..))` on an Option -> `verif_with_context(RECV)` (anyhow::Context: None -> Err, Some(v) -> Ok(v); the message is dropped)
  R28  `"literal".into()` where an Arc<str> is expected -> `verif_arc_str("literal")` (external_body helper whose body is `s.into()`)

`Slab` (incl. its vacant-entry protocol), `Arc`, `String`, `TextSize/TextRange`, `anyhow`, `ide::Change`, `ide::FileId`, `ide::FileSet`,
`Url`/`VfsPath` and `LineMap::normalize` are stand-ins with assumed contracts (contracts/vfs_prelude.rs)."""
import os
import re
from rustcut import Source, AnchorLost, code_mask, match_brace
from extract_parser import Item, split_fn, strip_lead, fns_in
from extract_conv import rewrite_ensure


FNS = ('set_path_content', 'change_file_content', 'remove_uri', 'file_for_path', 'file_for_uri', 'content_for_file', 'line_map_for_file')
WITH_CONTEXT_RX = re.compile(r'(\bself(?:\s*\.\s*\w+)*\s*\.\s*\w+\s*\([^()]*\))\s*\.\s*with_context\s*\(')


def rewrite_with_context(b):
    """R27: `RECV.with_context(|| format!(..))` on an Option -> `verif_with_context(RECV)` (anyhow::Context minus the message)"""
    n = 0
    while True:
        mask = code_mask(b)
        mm = next((c for c in WITH_CONTEXT_RX.finditer(b) if mask[c.start()]), None)
        if not mm:
            return b, n
        pc = match_brace(b, mask, mm.end() - 1, '(', ')')
        if not re.match(r'\s*\|\s*\|\s*format!\s*\(', b[mm.end():pc]):
            raise AnchorLost('with_context argument is not `|| format!(..)`')
        b = b[:mm.start()] + 'verif_with_context(%s)' % mm.group(1) + b[pc + 1:]
        n += 1


def extract(repo):
    vfs = Source(os.path.join(repo, 'crates/glas/src/vfs.rs'))
    s, o, c = vfs.cut_braced(r'^impl Vfs\b', 0)
    items, notes, seen = [], [], set()
    for nm, fs, fo, fc in fns_in(vfs, 1, o + 1, c):
        if nm not in FNS:
            continue
        seen.add(nm)
        h, b = split_fn(vfs, fs, fo, fc)
        b, n17 = rewrite_ensure(b)
        b, n22 = re.subn(r'^[ \t]*log::\w+!\s*\([^;]*\);[ \t]*\n', '', b, flags=re.M)
        b, n20 = re.subn(r'^([ \t]*)(\w+)\s*\+=\s*([^;]+);', r'\1\2.push_str(\3);', b, flags=re.M)
        b, n21a = re.subn(r'&\s*(\w+)\s*\[\s*\.\.\s*([^\[\]]+?)\s*\]', r'verif_str_to(\1, \2)', b)
        b, n21b = re.subn(r'&\s*(\w+)\s*\[\s*([^\[\]]+?)\s*\.\.\s*\]', r'verif_str_from(\1, \2)', b)
        b, n27 = rewrite_with_context(b)
        b, n28 = re.subn(r'("(?:[^"\\]|\\.)*")\s*\.\s*into\s*\(\s*\)', r'verif_arc_str(\1)', b)
        code = ''.join(ch if m else ' ' for ch, m in zip(b, code_mask(b)))
        if re.search(r'\b(bail|anyhow|format|ensure|log::\w+)!\s*\(', code) or re.search(r'\+=', code) or re.search(r'\[[^\]]*\.\.[^\]]*\]', code):
            raise AnchorLost('Vfs::%s uses a construct outside the rewrites R17/R20/R21/R22/R27/R28' % nm)
        h = re.sub(r'^\s*pub\s+', '', strip_lead(h))
        items.append(Item('fn', 'Vfs::' + nm, None, 'crates/glas/src/vfs.rs', vfs.line_of(fs), header=h, body=b, owner='Vfs'))
        notes.append('%s: R17 ensure!: %d, R20 `+=` -> push_str: %d, R21 slicing -> helpers: %d, R22 log statements dropped: %d, R27 with_context: %d, R28 "..".into(): %d'
                     % (nm, n17, n20, n21a + n21b, n22, n27, n28))
    missing = [f for f in FNS if f not in seen]
    if missing:
        raise AnchorLost('vfs.rs: no Vfs::%s' % missing[0])
    return {'items': items, 'notes': notes}


def bridge():
    """wrappers around the real Vfs::file_for_uri / line_map_for_file carrying, textually, the contracts that the conv unit assumes for
    its opaque Vfs (live -> live_i, known -> known_i, lm -> lm_i; wf is Vfs::wf)"""
    verif = os.path.dirname(os.path.dirname(os.path.abspath(__file__)))
    text = open(os.path.join(verif, 'contracts/conv_prelude.rs')).read()
    out, names = [], []
    for line in text.split('\n'):
        mm = re.match(r'\s*pub fn (file_for_uri|line_map_for_file)\(&self, (.*?)\) -> \((r: .*?)\)\s+requires (.*?)\s+ensures (.*?) \{ unimplemented!\(\) \}\s*$', line)
        if not mm:
            continue
        nm, params, ret, req, ens = mm.groups()
        sub = lambda t: re.sub(r'\bself\.(live|known|lm)\(', r'self.\1_i(', t)
        args = ', '.join(a.split(':')[0].strip() for a in params.split(','))
        out.append('    // the contract assumed for Vfs::%s in contracts/conv_prelude.rs, proved here for the real function\n    fn bridge_conv_%s(&self, %s) -> (%s)\n        requires %s\n        ensures %s\n    { self.%s(%s) }\n'
                   % (nm, nm, params, ret, sub(req), sub(ens), nm, args))
        names.append('conv:' + nm)
    if len(names) != 2:
        raise AnchorLost('bridge: expected the stand-in contracts of Vfs::file_for_uri and line_map_for_file in contracts/conv_prelude.rs, found %s' % names)
    return ''.join(out), names


def assemble(ex, prelude, fns_spec, loops_spec):
    import weave
    used_fn, used_loop, defaulted = set(), set(), []
    head = 'use vstd::prelude::*;\nuse std::sync::Arc;\nverus! {\n' + prelude + '\nimpl Vfs {\n'
    text, linemap = head, []
    line = head.count('\n') + 1
    for it in ex['items']:
        body = weave.emit_fn(it, fns_spec, loops_spec, used_fn, used_loop, defaulted)
        n = body.count('\n')
        linemap.append((line, line + n - 1, it.path, it.line, it.name))
        text += body
        line += n
    btext, bnames = bridge()
    text += '// ===== bridge (generated): ' + ', '.join(bnames) + '\n' + btext
    text += '}\n} // verus!\nfn main() {}\n'
    for nm in fns_spec:
        if nm not in used_fn:
            raise AnchorLost('@fn %s: no such function in the working tree' % nm)
    if defaulted:
        raise AnchorLost('no contract for %s' % defaulted)
    return text, linemap, {'contracted': sorted(used_fn), 'loops_contracted': [], 'bridged_contracts': bnames}
