#!/usr/bin/env python3
"""Confirm a sub-agent's seeded change whose demonstration is an integration-test file (crates/<crate>/tests/*.rs),
in a scratch worktree, and file it under /verif/seeded/<NAME>/.
usage: confirm_seed2.py PROP PATCH DEMO.rs CRATE NAME NOTES.md"""
import json, os, re, shutil, subprocess, sys
prop, patch, demo, crate, name, notes = sys.argv[1:7]
wt = '/tmp/confirm-%s' % name
env = dict(os.environ, CARGO_TARGET_DIR='/tmp/confirm-target', CARGO_NET_OFFLINE='true')
BASE_FAIL = {'ty::tests::infer_annotated_lambda', 'ty::tests::infer_annotated_let', 'ty::tests::infer_labelled_pipe'}

def sh(cmd, cwd=wt, timeout=3000):
    r = subprocess.run(cmd, cwd=cwd, env=env, capture_output=True, text=True, timeout=timeout)
    return r.returncode, r.stdout + r.stderr

subprocess.run(['git', '-C', '/repo', 'worktree', 'remove', '--force', wt], capture_output=True)
subprocess.run(['git', '-C', '/repo', 'worktree', 'add', '-q', '--detach', wt, 'HEAD'], check=True)
log = {'property': prop, 'name': name, 'ran': []}
try:
    tdir = os.path.join(wt, 'crates', crate, 'tests')
    def put_demo():
        os.makedirs(tdir, exist_ok=True)
        shutil.copy(demo, os.path.join(tdir, 'seed_demo.rs'))
    def run_demo():
        rc, out = sh(['cargo', 'test', '-p', crate, '--offline', '-j', '8', '--test', 'seed_demo'])
        res = dict(re.findall(r'^test (\S+) \.\.\. (ok|FAILED)', out, re.M))
        return rc, res, out[-600:] if not res else ''
    put_demo()
    rc0, r0, t0 = run_demo()
    log['ran'].append({'what': 'demo (crates/%s/tests/seed_demo.rs) on the unmodified tree' % crate, 'result': r0, 'rc': rc0, 'tail': t0})
    rc, out = sh(['git', 'apply', os.path.abspath(patch)])
    assert rc == 0, out
    rc1, r1, t1 = run_demo()
    log['ran'].append({'what': 'demo with the patch', 'result': r1, 'rc': rc1, 'tail': t1})
    shutil.rmtree(tdir)
    rc, out = sh(['cargo', 'test', '--workspace', '--no-fail-fast', '--offline', '-j', '8'])
    failed = set(re.findall(r'^test (\S+) \.\.\. FAILED', out, re.M))
    passed = len(re.findall(r'^test \S+ \.\.\. ok', out, re.M))
    log['ran'].append({'what': 'cargo test --workspace --no-fail-fast --offline with the patch (demo removed)', 'passed': passed, 'failed': sorted(failed)})
    ok = rc0 == 0 and r0 and all(v == 'ok' for v in r0.values()) and (rc1 != 0) and failed == BASE_FAIL and passed >= 155
    log['confirmed'] = bool(ok)
    if ok:
        d = '/verif/seeded/%s' % name
        os.makedirs(d, exist_ok=True)
        shutil.copy(patch, os.path.join(d, 'patch.diff'))
        shutil.copy(demo, os.path.join(d, 'demo.rs'))
        json.dump({'property': prop, 'breaks': prop, 'needs_to_manifest': open(notes).read() if os.path.exists(notes) else '',
                   'confirmed_by': log['ran'], 'demo_placement': 'crates/%s/tests/<any>.rs (integration test)' % crate,
                   'source': 'independent sub-agent (round 3), scratch worktree'}, open(os.path.join(d, 'meta.json'), 'w'), indent=1)
    print(json.dumps({k: log[k] for k in ('name', 'confirmed', 'ran')})[:1800])
finally:
    subprocess.run(['git', '-C', '/repo', 'worktree', 'remove', '--force', wt], capture_output=True)
