"""C04 (operator-table clause): loop-free Kani harness over all pairs of syntax kinds on the real
SyntaxKind::infix_bp / prefix_bp, run inside a per-run copy of crates/syntax."""
import concurrent.futures as cf
import json
import os
import shutil
import time

import kani_run
from common import VERIF, REPO, scratch, Undecided, write_evidence, write_replay, finish

HARNESS = os.path.join(VERIF, 'kani/parser/bp_table.rs')
CANARIES = [
    {'name': 'swap-concat-and-pipe-levels', 'tier': 'quick',
     'edits': [('T!["<>"] => (9, 10),', 'T!["<>"] => (11, 12),'), ('T!["|>"] => (11, 12),', 'T!["|>"] => (9, 10),')]},
    {'name': 'right-associative-plus', 'tier': 'thorough',
     'edits': [('T!["+"] | T!["-"] | T!["+."] | T!["-."] => (13, 14),', 'T!["+"] | T!["-"] | T!["+."] | T!["-."] => (14, 13),')]},
    {'name': 'prefix-not-looser-than-star', 'tier': 'thorough', 'edits': [('T!["!"] => 17,', 'T!["!"] => 15,')]},
    {'name': 'percent-not-an-operator', 'tier': 'thorough', 'edits': [(' | T!["%"] => (15, 16),', ' => (15, 16),')]},
]


def prepare(repo, dest):
    return kani_run.standalone_syntax_crate(repo, dest, [HARNESS])


def run_canary(c, idx):
    d = os.path.join(scratch(), 'c04canary%d' % idx)
    prepare(REPO, d)
    p = os.path.join(d, 'src/parser.rs')
    s = open(p).read()
    for old, new in c['edits']:
        if s.count(old) != 1:
            shutil.rmtree(d, ignore_errors=True)
            return {'name': c['name'], 'status': 'skipped', 'why': 'mutation site not found exactly once'}
        s = s.replace(old, new)
    open(p, 'w').write(s)
    r = kani_run.cargo_kani(d, 'parser::verif_kani::bp_table', timeout=900)
    shutil.rmtree(d, ignore_errors=True)
    if r['status'] == 'FAILED':
        return {'name': c['name'], 'status': 'tripped', 'obligation': r['failed_checks'][0]['description']}
    return {'name': c['name'], 'status': 'NOT-TRIPPED' if r['status'] == 'SUCCESSFUL' else 'undecided', 'kani_status': r['status']}


def main(prop, tier):
    t0 = time.time()
    d = os.path.join(scratch(), 'syntax_kani')
    try:
        prepare(REPO, d)
    except (Undecided, OSError) as e:
        return undecided(prop, tier, t0, 'cannot prepare the harness crate: %s' % e)
    cans = [c for c in CANARIES if tier == 'thorough' or c['tier'] == 'quick']
    with cf.ThreadPoolExecutor(max_workers=6) as pool:
        fm = pool.submit(kani_run.cargo_kani, d, 'parser::verif_kani::bp_table', (), 900)
        fc = [pool.submit(run_canary, c, i) for i, c in enumerate(cans)]
        r = fm.result()
        can = [f.result() for f in fc]
    if r['status'] in ('ERROR', 'TIMEOUT'):
        return undecided(prop, tier, t0, 'kani did not decide the harness (%s): %s' % (r['status'], r['raw_tail'][-800:]))
    violations = []
    guard = []
    if r['status'] == 'SUCCESSFUL':
        if not r['covers'] or r['covers'][0] != r['covers'][1]:
            guard.append('cover properties not all satisfied: %s' % (r['covers'],))
        if any(c['status'] == 'NOT-TRIPPED' for c in can):
            guard.append('canary not detected: %s' % [c['name'] for c in can if c['status'] == 'NOT-TRIPPED'])
        if not any(c['status'] == 'tripped' for c in can):
            guard.append('no canary could be run on this tree')
    tests = []
    if r['status'] == 'FAILED':
        tests = kani_run.playback_failure(d, 'parser::verif_kani::bp_table')
        for fcheck in r['failed_checks']:
            t = next((t for t in tests if t['description'] == fcheck['description']), None)
            wit = None
            if t and t['native'].startswith('FAILED'):
                kinds = kind_names(t['concrete_vals'])
                wit = {'kind': 'kani-playback', 'concrete_vals': t['concrete_vals'], 'syntax_kinds': kinds,
                       'test_source': t['test_source'], 'observed': t['native'],
                       'meaning': 'the harness body run natively (cargo kani playback) on the real infix_bp/prefix_bp with a=%s b=%s' % tuple(kinds[:2] + ['?'] * (2 - len(kinds[:2])))}
            path = write_replay(prop, 'parser_kani :: bp_table :: ' + fcheck['description'],
                                'crates/syntax/src/parser.rs (impl SyntaxKind: infix_bp / prefix_bp)', 'kani 0.68.0 / cbmc 6.11',
                                json.dumps(fcheck), wit, './check C04 --replay <this file>')
            violations.append((path, wit is not None))
    n = r.get('n_checks', r['checks'])
    nf = r.get('n_failed', len(r['failed_checks']))
    cov = {'obligations': n, 'discharged': n - nf,
           'checker_cmd': r['cmd'] + '   (in a per-run stand-alone copy of crates/syntax with kani/parser/bp_table.rs appended to parser.rs as #[cfg(kani)] mod verif_kani)',
           'trusted_base': ['Kani 0.68 / CBMC 6.11 and their model of Rust',
                            'reference function level(k) in kani/parser/bp_table.rs, written from the property statement (Gleam operator precedence)',
                            'the Pratt loop in expr_bp uses the table in the standard way (lbp < min_bp stops, recursion with rbp): not verified here (tree shape is outside the contracts; C01/C02 only cover its event discipline and termination)',
                            'clauses of C04 not decided: look-ahead disambiguation, item boundaries, error-freedom on well-formed programs, AST accessor slots'],
           'functions_under_contract': ['SyntaxKind::infix_bp', 'SyntaxKind::prefix_bp'],
           'exhaustive': True, 'input_domain': 'all pairs (a, b) of syntax kinds, raw u16 < __LAST', 'loop_free': True,
           'covers_satisfied': r['covers'], 'cbmc_s': r.get('cbmc_s'), 'canaries': can,
           'samples': ['a, b symbolic over all kinds: infix_bp(a) is Some <=> level(a) is Some', 'level(a) < level(b) => rbp(a) < lbp(b)',
                       'prefix_bp(a) > lbp(b) for every infix b'],
           'failed_checks': r['failed_checks'], 'playback': [{k: t[k] for k in ('description', 'concrete_vals', 'native')} for t in tests]}
    write_evidence(prop, tier, 'proof', cov, ['see coverage.trusted_base'], time.time() - t0, len(violations))
    if guard:
        finish(prop, [], [], 'vacuity guard failed: ' + '; '.join(guard))
    finish(prop, violations, [])


def kind_names(vals):
    try:
        import extract_parser
        from rustcut import Source
        variants, _, _ = extract_parser.parse_kind_table(Source(os.path.join(REPO, 'crates/syntax/src/kind.rs')))
        out = []
        for v in vals:
            raw = v[0] + (v[1] << 8 if len(v) > 1 else 0)
            out.append(variants[raw] if raw < len(variants) else str(raw))
        return out
    except Exception:
        return [str(v) for v in vals]


def undecided(prop, tier, t0, msg):
    write_evidence(prop, tier, 'proof', {'obligations': 0, 'discharged': 0, 'checker_cmd': 'cargo kani (not decided)', 'trusted_base': [],
                                         'explanation': 'UNDECIDED: ' + msg[:1500], 'evaluations': 1, 'distinct_nontrivial': 2}, [], time.time() - t0, 0)
    finish(prop, [], [], msg[:1500])


def replay(prop, path):
    r = json.load(open(path))
    w = r.get('witness')
    if not w or not w.get('test_source'):
        print('replay: no concrete witness; failed obligation: %s\n%s' % (r.get('obligation'), r.get('verifier_output')))
        return 1
    d = os.path.join(scratch(), 'replay_kani')
    prepare(REPO, d)
    tests = [{'test_name': __import__('re').search(r'fn (kani_concrete_playback_\w+)', w['test_source']).group(1),
              'test_source': w['test_source'], 'native': 'not-run'}]
    kani_run.run_playback_tests(d, tests)
    print('replay on the working tree: %s (kinds %s)' % (tests[0]['native'], w.get('syntax_kinds')))
    return 1 if tests[0]['native'].startswith('FAILED') else 0
