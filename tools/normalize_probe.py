"""Bounded native stand-in for LineMap::normalize (C14 / C13): every document of <= L characters over a six-letter alphabet through the
REAL function, in a scratch copy of the workspace with a test module appended to crates/glas/src/vfs.rs (tools/normalize_probe/
verif_normalize.rs says what is checked).  Execution of enumerated inputs, not deduction: labelled bounded, never counted as proved."""
import os
import re
import shutil
from common import VERIF, REPO, scratch, run


def run_probe(repo=REPO, max_len=6):
    d = os.path.join(scratch(), 'normalize_native')
    shutil.rmtree(d, ignore_errors=True)
    shutil.copytree(repo, d, ignore=shutil.ignore_patterns('target', '.git', 'editor'))
    vfs = os.path.join(d, 'crates/glas/src/vfs.rs')
    if not os.path.exists(vfs):
        return {'status': 'undecided', 'why': 'crates/glas/src/vfs.rs not found'}
    open(vfs, 'a').write(open(os.path.join(VERIF, 'tools/normalize_probe/verif_normalize.rs')).read())
    cmd = ['cargo', 'test', '-p', 'glas', '--offline', '--lib', 'verif_normalize', '--', '--nocapture']
    rc, out, err, wall = run(cmd, cwd=d, timeout=1500, env={'CARGO_TARGET_DIR': os.path.join(d, 'target'), 'RUST_BACKTRACE': '0', 'VERIF_NORMALIZE_L': str(max_len)})
    text = out + '\n' + err
    shutil.rmtree(os.path.join(d, 'target'), ignore_errors=True)
    res = re.search(r'^test vfs::verif_normalize::exhaustive \.\.\. (ok|FAILED)', text, re.M)
    cnt = re.search(r'VERIF-COUNT (\d+)', text)
    bound = 'every document of <= %d characters over {a, LF, CR, U+00DF, U+211D, U+1F4A3}' % max_len
    if rc is None or not res:
        return {'status': 'undecided', 'why': 'the scratch copy of crate glas did not build / run with the probe appended: %s' % text[-600:], 'wall_s': wall, 'bound': bound}
    if res.group(1) == 'ok':
        return {'status': 'passed', 'documents': int(cnt.group(1)) if cnt else None, 'bound': bound, 'wall_s': round(wall, 1), 'cmd': ' '.join(cmd)}
    sm = re.search(r'VERIF-SYMPTOM ([^\n]*)', text)
    pm = re.search(r"panicked at ([^\n]*)\n([^\n]*)", text)
    return {'status': 'failed', 'symptom': (sm.group(1) if sm else (pm.group(1) + ' ' + pm.group(2) if pm else 'test failed'))[:600], 'bound': bound, 'wall_s': round(wall, 1), 'cmd': ' '.join(cmd)}


if __name__ == '__main__':
    import json
    import sys
    print(json.dumps(run_probe(sys.argv[1] if len(sys.argv) > 1 else REPO, int(sys.argv[2]) if len(sys.argv) > 2 else 6), indent=1))
