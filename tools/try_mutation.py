#!/usr/bin/env python3
"""Development aid: apply a textual mutation to /repo, run checks, always revert.
usage: try_mutation.py FILE OLD NEW PROP[,PROP..]   (OLD/NEW python-escaped strings)"""
import subprocess, sys, os
f, old, new, props = sys.argv[1:5]
old = old.encode().decode('unicode_escape'); new = new.encode().decode('unicode_escape')
p = os.path.join('/repo', f)
s = open(p).read()
assert s.count(old) == 1, 'site found %d times' % s.count(old)
open(p, 'w').write(s.replace(old, new))
try:
    for prop in props.split(','):
        r = subprocess.run(['/verif/check', prop], capture_output=True, text=True)
        print(prop, 'exit', r.returncode)
        print(r.stdout[-1500:])
finally:
    subprocess.run(['git', '-C', '/repo', 'checkout', '--', '.'])
