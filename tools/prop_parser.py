"""C01 (lossless tree) and C02 (parser total): Verus unit over the real grammar functions,
vacuity guards, canaries, bounded end-to-end stand-ins, witness search."""
import concurrent.futures as cf
import json
import os
import re
import shutil
import time

import extract_parser
import gen_build_tree
import kani_run
import weave
import witness
from common import VERIF, REPO, scratch, Undecided, write_evidence, write_replay, load_known_findings, finish, norm, seed
from rustcut import AnchorLost
from verus_run import verus, locate, obligation_id

C01_KEYS = ('lp(', 'ext(', 'extd(', 'wf()', 'wf_ev()', 'depth(', 'open_at(', 'handed(', 'mark_ok(', 'is_open(', 'events',
            'tokens_raw', 'src@', 'n_adv', 'nested', '.index', 'tokens@ ==', 'rooted(', 'inroot(', 'btoks(', 'bdepth(', 'binside(',
            'single_root(', 'is_trivia_spec(', 'n_real(', 'push_toks(', 'raw_prefix(', 'bt_pre(', 'builder@')
BT_KEYS = ('btoks(', 'bdepth(', 'binside(', 'single_root(', 'is_trivia_spec(', 'n_real(', 'push_toks(', 'raw_prefix(', 'bt_pre(', 'builder@')
C02_KEYS = ('fuel', 'prog(', '.pos', 'cur()', 'kidx(', 'rem()', 'is Some', 'is None', 'has(', '_spec(', 'MAX_DEPTH', '.depth',
            'seq_has', 'bit(', 'handed(', 'wf()', 'wf_tok()', 'kind !=', 'tokens.len()', 'tokens@.len()')
C02_MSGS = ('could not prove termination', 'decreases not satisfied', 'possible arithmetic', 'possible bit shift',
            'possible division', 'unreachable')


def classify(f):
    props = set()
    if any(f['message'].startswith(m) for m in C02_MSGS):
        props.add('C02')
    if f['message'].startswith('precondition') or f['message'].startswith('loop invariant') or f['message'].startswith('loop ensures'):
        # primary span = call site / break / continue, labelled secondary span = the failed clause
        texts = [c['text'] for c in f['clauses'] if c['text']] or [f['site']]
    else:
        # postcondition / invariant / assertion: the primary span is the failed clause itself
        texts = [f['site']]
    t = ' '.join(texts)
    if any(k in t for k in BT_KEYS) and not props:
        return {'C01'}   # tree-builder vocabulary: losslessness only
    if 'assert!' in f['site'] or 'panic!' in f['site']:
        props.add('C02')
    if any(k in t for k in C01_KEYS):
        props.add('C01')
    if any(k in t for k in C02_KEYS):
        props.add('C02')
    if 'closure' in f['message']:
        props.add('C01')   # post-/precondition of a closure: only Parser::build_tree has contracted closures
    if not props:
        props = {'C01', 'C02'}
    return props


ASSUME_RX = re.compile(r'(assume\s*\(|admit\s*\(|#\[verifier::external_body\]|assume_specification|#\[verifier::external\]|'
                       r'#\[verifier::external_type_specification\]|#\[verifier::external_fn_specification\]|#\[verifier::truncate\]|'
                       r'#\[verifier::exec_allows_no_decreases_clause\]|#\[verifier::assume_termination\]|no_decreases)')


def scan_assumptions(text):
    """Mechanical scan of the generated unit for everything that is assumed rather than proved."""
    found = []
    lines = text.split('\n')
    for i, line in enumerate(lines):
        code = line.split('//')[0]
        for mm in ASSUME_RX.finditer(code):
            ctx = norm(code)
            if mm.group(1).startswith('#[verifier::external') and code.strip() == mm.group(1):
                # attribute on its own line: name the item it decorates
                j = i + 1
                while j < len(lines) and (lines[j].strip().startswith('#[') or not lines[j].strip()):
                    j += 1
                ctx = mm.group(1) + ' ' + norm(lines[j].split('{')[0].split('(')[0]) if j < len(lines) else mm.group(1)
            found.append(ctx)
    return sorted(set(found))


def build(repo, outdir, with_contracts=True, inferred=None, with_bt=True, dropped_opt=None, only_bt=False, external=()):
    ex = extract_parser.extract(repo)
    prelude = open(os.path.join(VERIF, 'contracts/parser_prelude.rs')).read() + open(os.path.join(VERIF, 'contracts/parser_prelude_bt.rs')).read()
    stubs = open(os.path.join(VERIF, 'contracts/parser_stubs.rs')).read()
    top = open(os.path.join(VERIF, 'contracts/parser_top.rs')).read()
    if with_bt:
        top += open(os.path.join(VERIF, 'contracts/parser_top_bt.rs')).read()
    fns, loops = weave.parse_spec(open(os.path.join(VERIF, 'contracts/parser.spec')).read())
    loops.dropped_optional = set(dropped_opt or ())
    text, linemap, info = weave.assemble(ex, prelude, fns, loops, stubs, top, inferred, with_bt, only_bt, external)
    info['assumed_in_this_run'] = sorted(external)
    info['optional_clauses_dropped'] = sorted(loops.dropped_optional)
    info['tree_builder_in_unit'] = with_bt
    os.makedirs(outdir, exist_ok=True)
    unit = os.path.join(outdir, 'unit_bt.rs' if only_bt else 'unit.rs')
    open(unit, 'w').write(text)
    json.dump(linemap, open(os.path.join(outdir, 'LINEMAP.json'), 'w'))
    return ex, fns, loops, text, linemap, info, unit


DROPPED_OPT_LAST = set()   # optional clauses pruned in the last verify_with_inference (canaries start from the same contracts)


def optional_failures(text, res):
    """ids of optional clauses (marked `/*@opt:ID*/` on their line) whose proof failed in this run"""
    ulines = text.split('\n')
    newly = set()
    for f in res['failures']:
        if f['line'] and (f['message'].startswith('postcondition') or 'post-condition of closure' in f['message']):
            om = re.search(r'/\*@(opt:[^*]+)\*/', ulines[f['line'] - 1])
            if om:
                newly.add(om.group(1))
    return newly


def verify_with_inference(repo, outdir):
    """Build + verify.  Functions without an @fn entry (helpers somebody added or renamed) get candidate
    contracts that are pruned Houdini-style: a requires candidate that fails at a call site and an ensures
    candidate the body does not establish are dropped, and the unit is verified again, until nothing changes.
    The last run - in which every remaining clause of an inferred contract is proved - is the result."""
    inferred = None
    log = []
    with_bt, bt_note = True, None
    external = ()
    dropped_opt = set()
    # phase 0: optional clauses live in the tree-builder part only; prune them on the reduced unit (seconds per round)
    for rnd in range(12):
        try:
            ex, fns, loops, text, linemap, info, unit = build(repo, outdir, True, None, True, dropped_opt, only_bt=True)
            if ex.get('build_tree_unextractable'):
                break
            res = verus(unit, multiple_errors=20)
        except (Undecided, AnchorLost, weave.SpecError):
            break
        newly = optional_failures(text, res)
        if not newly:
            break
        dropped_opt |= newly
        log.append('tree-builder unit, round %d: optional clauses not established by the code, dropped: %s' % (rnd, sorted(newly)))
    for rnd in range(20):
        # configurations, most complete first: (tree builder in the unit?, functions taken as external_body).  A unit that the
        # extractor cannot cut or Verus rejects outright (unsupported construct, type error) moves on to the next one; the
        # configuration that was used is recorded in the evidence.  Never an alarm by itself.
        configs = [(True, ()), (True, ('Parser::error',)), (False, ()), (False, ('Parser::error',))]
        configs = configs[configs.index((with_bt, tuple(external))):]
        last_exc = None
        for (cfg_bt, cfg_ext) in configs:
            try:
                ex, fns, loops, text, linemap, info, unit = build(repo, outdir, True, inferred, cfg_bt, dropped_opt, external=cfg_ext)
                if cfg_bt and ex.get('build_tree_unextractable'):
                    raise Undecided('Parser::build_tree is not of the shape the rewrites R11/R12 expect: %s' % ex['build_tree_unextractable'])
                res = verus(unit, multiple_errors=30 if inferred is not None else 10)
                if (cfg_bt, cfg_ext) != (with_bt, tuple(external)):
                    if with_bt and not cfg_bt:
                        bt_note = str(last_exc)[:600]
                        log.append('tree builder left out of the Verus unit: %s' % bt_note)
                    if cfg_ext and not external:
                        log.append('Parser::error taken as external_body in this run (its contract is assumed here and checked by the Kani harness error_contract): %s' % str(last_exc)[:300])
                    with_bt, external = cfg_bt, cfg_ext
                last_exc = None
                break
            except (Undecided, AnchorLost) as e:
                last_exc = e
        if last_exc is not None:
            raise last_exc
        info['tree_builder_fallback_reason'] = bt_note
        # optional clauses (contracts/parser.spec `ensures_optional`) that the body does not establish are dropped and the
        # unit is verified again: they only exist so that one function can be written through another
        newly = optional_failures(text, res)
        if newly:
            dropped_opt |= newly
            log.append('round %d: optional clauses not established by the code, dropped: %s' % (rnd, sorted(newly)))
            continue
        if not info['defaulted']:
            break
        if inferred is None:
            inferred = {}
            for it in ex['items']:
                if it.kind == 'fn' and it.name in info['defaulted']:
                    c = weave.candidate_contract(it)
                    inferred[it.name] = {'requires': list(c['requires']), 'ensures': list(c['ensures'])}
        changed = False
        for f in res['failures']:
            loc = locate(linemap, f['line'])
            fn = loc[0] if loc else None
            if f['message'].startswith('postcondition') and fn in inferred:
                for cand in list(inferred[fn]['ensures']):
                    if norm(cand) == f['site'] or any(norm(cand) == c['text'] for c in f['clauses']):
                        inferred[fn]['ensures'].remove(cand)
                        log.append('round %d: %s: dropped ensures candidate `%s` (not established by the body)' % (rnd, fn, cand))
                        changed = True
            if f['message'].startswith('precondition'):
                mm = re.match(r'^(?:\w+\.)?(\w+)\(', f['site'])
                callee = mm.group(1) if mm else None
                for key in (callee, 'Parser::%s' % callee):
                    if key in inferred:
                        for cand in list(inferred[key]['requires']):
                            cn = norm(cand)
                            if any(cn == c['text'] for c in f['clauses']):
                                inferred[key]['requires'].remove(cand)
                                log.append('round %d: %s: dropped requires candidate `%s` (fails at a call site in %s)' % (rnd, key, cand, fn))
                                changed = True
        if not changed:
            break
    DROPPED_OPT_LAST.clear()
    DROPPED_OPT_LAST.update(dropped_opt)
    info['inferred_contracts'] = inferred or {}
    info['inference_log'] = log
    return ex, fns, loops, text, linemap, info, unit, res


def run_reach(ex, fns, text, outdir):
    mod, names = weave.reach_module(ex, fns)
    os.makedirs(outdir, exist_ok=True)
    path = os.path.join(outdir, 'unit_reach.rs')
    head, sep, tail = text.rpartition('fn main() {}')
    open(path, 'w').write(head + mod + sep + tail)
    r = verus(path, extra=['--verify-module', 'reach'], multiple_errors=1)
    failed_lines = set()
    rt = open(path).read().split('\n')
    failed = set()
    for f in r['failures']:
        # find enclosing reach fn
        ln = f['line']
        while ln > 0 and not rt[ln - 1].startswith('proof fn reach_'):
            ln -= 1
        mm = re.match(r'proof fn (reach_\w+)', rt[ln - 1]) if ln > 0 else None
        if mm:
            failed.add(mm.group(1))
    vacuous = [orig for fname, orig in names if fname not in failed]
    return {'checked': len(names), 'rejected_as_required': len(failed), 'vacuous': vacuous, 'wall_s': r['wall_s']}


def run_canary(c, idx):
    """Apply one mechanical mutation to a scratch copy of the sources; the named obligation must fail."""
    d = os.path.join(scratch(), 'canary%d' % idx)
    src = os.path.join(d, 'crates/syntax/src')
    shutil.copytree(os.path.join(REPO, 'crates/syntax/src'), src)
    p = os.path.join(d, c['file'])
    s = open(p).read()
    if s.count(c['old']) != 1:
        return {'name': c['name'], 'status': 'skipped', 'why': 'mutation site not found exactly once in the working tree'}
    open(p, 'w').write(s.replace(c['old'], c['new']))
    try:
        ex, fns, loops, text, linemap, info, unit = build(d, os.path.join(d, 'u'), dropped_opt=DROPPED_OPT_LAST)
        r = None
        if c['expect_fn']:
            # only the function the mutation must break (seconds instead of a full unit); full run if that matches nothing
            r = verus(unit, multiple_errors=3, extra=['--verify-root', '--verify-function', c['expect_fn']])
            if r['verified'] + r['errors'] == 0:
                r = None
        if r is None:
            r = verus(unit, multiple_errors=3)
    except (Undecided, AnchorLost, weave.SpecError) as e:
        return {'name': c['name'], 'status': 'undecided', 'why': str(e)[:300]}
    hits = []
    for f in r['failures']:
        loc = locate(linemap, f['line'])
        fn = loc[0] if loc else None
        if (not c['expect_fn'] or fn == c['expect_fn']) and c['expect_msg'] in f['message']:
            hits.append(obligation_id('parser', fn, f))
    shutil.rmtree(d, ignore_errors=True)
    if hits:
        return {'name': c['name'], 'status': 'tripped', 'obligation': hits[0], 'property': c['property']}
    return {'name': c['name'], 'status': 'NOT-TRIPPED', 'failures_seen': [f['message'] + ' @ ' + f['site'][:80] for f in r['failures']][:5]}


def repo_location(ex, linemap, f, repo=REPO):
    loc = locate(linemap, f['line'])
    if not loc:
        return None, 'contracts/parser_prelude.rs (hand-written specification)'
    name, path, rline = loc
    # try to find the failing statement's own line in the real file
    site = f['site']
    try:
        src = open(os.path.join(repo, path)).read().split('\n')
        probe = norm(re.sub(r'SyntaxKind::', '', site))[:40]
        for i in range(rline - 1, min(len(src), rline + 400)):
            if probe and probe in norm(src[i]):
                return name, '%s:%d (in %s, defined at line %d)' % (path, i + 1, name, rline)
    except OSError:
        pass
    return name, '%s:%d (%s)' % (path, rline, name)


def deep_probe(tier, kinds=None):
    """Bounded stand-in for the two things the Verus unit does not model: the machine stack and the
    progress guard's fuel (a Cell mutated through &self).  Every nesting construct at depths around
    and far beyond MAX_DEPTH, on the real crate, in a 2 MiB thread."""
    ns = (40, 99, 100, 101, 250, 5000, 120000) if tier == 'quick' else (40, 50, 70, 99, 100, 101, 102, 150, 250, 1000, 5000, 50000, 200000)
    ran = 0
    for nm, _, _, _ in witness.DEEP:
        for n in ns:
            if nm in witness.MIXED and n > 250:
                continue   # the mixed-category inputs are about the depth bound x fuel interplay, not about the machine stack
            w = witness.run_one(witness.deep_input(nm, n))
            ran += 1
            if w and kinds and w['kind'] not in kinds:
                w = None
            if w:
                w['input_recipe'] = '%s x %d' % (nm, n)
                w['input'] = w['input'][:300]
                return w, ran
    return None, ran


BT_QUICK = [('empty_file', 2), ('fn_1', 2), ('generic_1', 2), ('fn_name_2', 3), ('error_then_fn_2', 3), ('adt_variant_2', 3)]
BT_QUICK_CROSS = [('fn_1', 2), ('error_then_fn_2', 3)]
BT_THOROUGH = [('empty_file', 3), ('fn_1', 3), ('generic_1', 3), ('fn_name_2', 4), ('error_then_fn_2', 4), ('adt_variant_2', 4),
               ('const_nested_2', 4), ('wrapped_3', 4)]


def run_tree_builder(tier, in_unit=False):
    """C01-B / C01-C: bounded Kani checks of the real build_tree (stubbed rowan builder) and of the
    contracts of Parser::nth / Parser::error that the Verus unit assumes."""
    d = os.path.join(scratch(), 'syntax_kani_%s' % ('cross' if in_unit else 'full'))
    pairs = BT_QUICK if tier == 'quick' else BT_THOROUGH
    if tier == 'quick' and in_unit:
        # Parser::build_tree is verified by Verus in this run: two shapes stay as a cross-check of the trace specification
        pairs = BT_QUICK_CROSS
    text, names = gen_build_tree.generate(open(os.path.join(VERIF, 'kani/parser/build_tree.rs.in')).read(), pairs)
    gen = os.path.join(scratch(), 'build_tree_gen_%s.rs' % ('cross' if in_unit else 'full'))
    open(gen, 'w').write(text)
    kani_run.standalone_syntax_crate(REPO, d, [gen, os.path.join(VERIF, 'kani/parser/nth_error.rs'), os.path.join(VERIF, 'kani/parser/lex_string.rs')])
    names += ['parser::verif_kani::nth_contract', 'parser::verif_kani::error_contract', 'parser::verif_kani::lex_string_contract']
    return kani_run.run_many(d, names, ('-Z', 'stubbing'), 3000, jobs=len(names)), pairs


def classified_failures(text, linemap, unit, res):
    """every failed obligation of the unit with its function, id and property classes"""
    # C20's invariant (errs_ok: every recorded error points at a token or at the end of the text) rides inside the frame
    # `ext`.  To attribute a failed frame clause, the unit is verified once more with that invariant switched off: what no
    # longer fails is a C20 obligation, everything else keeps its class.  (Only when something failed.)
    c20_only = set()
    if res['failures']:
        try:
            off = os.path.join(os.path.dirname(unit), 'unit_no_c20.rs')
            t2, n_sub = re.subn(r'spec fn errs_ok\(&self\) -> bool \{[^\n]*\}', 'spec fn errs_ok(&self) -> bool { true }', text, count=1)
            if n_sub == 1:
                open(off, 'w').write(t2)
                r2 = verus(off, multiple_errors=30)
                still = set()
                for f2 in r2['failures']:
                    l2 = locate(linemap, f2['line'])
                    still.add(obligation_id('parser', l2[0] if l2 else None, f2))
                for f in res['failures']:
                    l1 = locate(linemap, f['line'])
                    fid = obligation_id('parser', l1[0] if l1 else None, f)
                    if fid not in still:
                        c20_only.add(fid)
        except Undecided:
            pass
    out = []
    for f in res['failures']:
        loc = locate(linemap, f['line'])
        fn = loc[0] if loc else None
        f['fn'] = fn
        f['id'] = obligation_id('parser', fn, f)
        f['props'] = sorted(classify(f))
        if fn in ('Parser::eof', 'Parser::nth', 'Parser::at', 'Parser::at_any', 'Parser::eat', 'Parser::expect'):
            # the look-ahead / end-of-input primitives carry both properties: `module` consumes every token (C01)
            # and every loop terminates (C02) only because these say what they say
            f['props'] = ['C01', 'C02']
        if f['id'] in c20_only or any(k in ' '.join([f['site']] + [c['text'] for c in f['clauses']]) for k in ('errs_ok', 'err_range_ok', 'eof_range', 'errors@')):
            f['props'] = ['C20']
        out.append(f)
    return out


def c20_part(outdir):
    """the parser unit as seen by C20: -> dict(status, verified, errors, failures=[C20-class failures], ...)"""
    try:
        ex, fns, loops, text, linemap, info, unit, res = verify_with_inference(REPO, outdir)
    except (AnchorLost, weave.SpecError, Undecided) as e:
        return {'status': 'undecided', 'why': str(e)[:800]}
    fs = [f for f in classified_failures(text, linemap, unit, res) if 'C20' in f['props']]
    bodies = {it.name: it.body for it in ex['items'] if it.kind == 'fn'}
    unc = [u.split('::')[-1] for u in info.get('uncontracted', []) if not u.startswith('SyntaxKind::') and not u.startswith('TokenSet::')]
    nc = [f for f in fs if f['fn'] in info['defaulted'] or (f['fn'] in bodies and any(re.search(r'\b%s\s*\(' % re.escape(u), bodies[f['fn']]) for u in unc))]
    if fs and len(nc) == len(fs):
        return {'status': 'undecided', 'why': 'obligations failed only in functions that call a helper without a contract (needs contract, not a bug): %s' % sorted(set(f['fn'] for f in fs))}
    other = [f['id'][:200] for f in res['failures'] if f not in fs]
    return {'status': 'failed' if fs else ('verified' if not res['failures'] else 'verified-for-C20 (other properties\' obligations fail)'),
            'verified': res['verified'], 'errors': res['errors'], 'cmd': res['cmd'], 'smt_ms': res['smt_ms'],
            'failures': [{'id': f['id'], 'fn': f['fn'], 'rendered': f['rendered'], 'where': repo_location(ex, linemap, f)[1]} for f in fs],
            'failed_obligations_other_property': other, 'functions_under_contract': info['contracted']}


def native_bounded(prop, tier):
    """Bounded end-to-end stand-ins on the real crate (native driver): -> (evidence entries, [(obligation, where, witness)]).
    Independent of the Verus unit, so it runs next to it."""
    bounded, found = [], []
    witness.build_driver()
    if prop == 'C02':
        w, ran = deep_probe(tier)
        bounded.append({'what': 'deep-nesting inputs on the real crate in a 2 MiB thread (stack depth and progress-guard fuel are outside the Verus model)',
                        'bound': 'constructs=%d depths per construct: see tools/prop_parser.py deep_probe (%s tier)' % (len(witness.DEEP), tier),
                        'inputs_run': ran, 'failed': bool(w)})
        if w and w['kind'] not in ('panic', 'hang', 'abort'):
            bounded[-1]['other_property_symptom'] = '%s on %s (belongs to C01 / C20, not reported here)' % (w['kind'], w.get('input_recipe'))
            w = None
        if w:
            found.append(('parser :: bounded-check :: deep nesting :: %s' % w.get('input_recipe'),
                          'crates/syntax/src/parser.rs (Parser::nth progress guard / recursion depth)', w))
    if prop == 'C01':
        w, ran = deep_probe(tier, kinds=('lossy',))
        bounded.append({'what': 'deep-nesting inputs (unclosed / balanced / mixed / followed by another item) on the real crate: tree text == input',
                        'bound': 'constructs=%d depths per construct: see tools/prop_parser.py deep_probe (%s tier)' % (len(witness.DEEP), tier),
                        'inputs_run': ran, 'failed': bool(w)})
        if w:
            found.append(('parser :: bounded-check :: lossless :: deep nesting :: %s' % w.get('input_recipe'), 'crates/syntax/src/parser.rs', w))
        k, budget = (2, 60) if tier == 'quick' else (3, 420)
        w, n = witness.enumerate_inputs(k, budget, seed(), kinds=['lossy'])
        bounded.append({'what': 'end-to-end losslessness of parse_module (lexer + parser + tree builder + rowan) on enumerated token-class sequences in 9 contexts',
                        'bound': 'all sequences of <= %d tokens over a 52-token alphabet (time budget %ds)' % (k, budget),
                        'inputs_run': n, 'failed': bool(w)})
        if w and w['kind'] == 'lossy':
            found.append(('parser :: bounded-check :: lossless :: enumerated input', 'crates/syntax/src/parser.rs', w))
    return bounded, found


def main(prop, tier):
    t0 = time.time()
    sd = scratch()
    canaries = json.load(open(os.path.join(VERIF, 'contracts/parser_canaries.json')))
    if tier == 'quick':
        canaries = [c for c in canaries if c['tier'] == 'quick']
    early = cf.ThreadPoolExecutor(max_workers=3)
    fut_native = early.submit(native_bounded, prop, tier)
    # the Kani stage does not depend on the Verus unit either; it starts with the cross-check shapes (quick tier) and is
    # repeated with the full set only if the tree builder turns out not to be verifiable in the unit
    fut_bt_early = early.submit(run_tree_builder, tier, True) if prop == 'C01' else None
    # side unit (C01): the trivia-filter statement of parse_module establishes the two facts verif_parse takes as `requires`
    import side_unit
    fut_pmod = early.submit(side_unit.run, 'pmod') if prop == 'C01' else None
    fut_pmodc = early.submit(side_unit.canary, 'pmod', side_unit.UNITS['pmod']['canaries'][0], 0) if prop == 'C01' else None
    try:
        ex, fns, loops, text, linemap, info, unit, res0 = verify_with_inference(REPO, os.path.join(sd, 'unit'))
    except (AnchorLost, weave.SpecError) as e:
        return undecided_with_probes(prop, tier, t0, 'extraction anchor lost: %s' % e)
    except Undecided as e:
        return undecided_with_probes(prop, tier, t0, str(e))
    assumptions_found = scan_assumptions(text)
    allowed = [norm(l) for l in open(os.path.join(VERIF, 'contracts/ALLOWED_ASSUMPTIONS')).read().split('\n')
               if l.strip() and not l.startswith('# ')]
    extra_assumptions = [a for a in assumptions_found if a not in allowed]
    if 'Parser::error' in info.get('assumed_in_this_run', []):
        # fallback configuration of verify_with_inference: reported in the evidence, checked by the Kani harness error_contract
        extra_assumptions = [a for a in extra_assumptions if a != '#[verifier::external_body] fn error']

    want_driver = True
    with cf.ThreadPoolExecutor(max_workers=8) as pool:
        fut_main = pool.submit(lambda: res0)
        fut_reach = pool.submit(run_reach, ex, fns, text, os.path.join(sd, 'reach'))
        fut_can = [pool.submit(run_canary, c, i) for i, c in enumerate(canaries)]
        fut_drv = pool.submit(witness.build_driver) if want_driver else None
        fut_bt = None
        if prop == 'C01':
            fut_bt = fut_bt_early if (info.get('tree_builder_in_unit') or tier != 'quick') else pool.submit(run_tree_builder, tier, False)
        try:
            res = fut_main.result()
            reach = fut_reach.result()
            can = [f.result() for f in fut_can]
            if fut_drv:
                fut_drv.result()
            bt = fut_bt.result() if fut_bt else None
        except Undecided as e:
            return undecided(prop, tier, t0, str(e))

    # ---- failures of named obligations
    mine, others = [], []
    for f in classified_failures(text, linemap, unit, res):
        (mine if prop in f['props'] else others).append(f)

    # functions without an explicit contract that are involved in a failure: "needs contract", not "bug"
    needs_contract = [f for f in mine if f['fn'] in info['defaulted'] or any(d in f['site'] for d in info['defaulted'])]
    # ... and a failure in a function whose body calls a helper that has no contract at all (a new `&self` helper, say)
    bodies = {it.name: it.body for it in ex['items'] if it.kind == 'fn'}
    unc = [u.split('::')[-1] for u in info.get('uncontracted', []) if not u.startswith('SyntaxKind::') and not u.startswith('TokenSet::')]
    for f in mine:
        if f not in needs_contract and f['fn'] in bodies and any(re.search(r'\b%s\s*\(' % re.escape(u), bodies[f['fn']]) for u in unc):
            needs_contract.append(f)

    guard_problems = []
    if extra_assumptions:
        guard_problems.append('assumption scan found entries outside contracts/ALLOWED_ASSUMPTIONS: %s' % extra_assumptions)
    if reach['vacuous']:
        guard_problems.append('contradictory precondition (reach check verified) for: %s' % reach['vacuous'])
    bad_can = [c for c in can if c['status'] == 'NOT-TRIPPED']
    # a canary is only meaningful when the unit itself verifies
    if bad_can and not res['failures']:
        guard_problems.append('canary mutants not detected: %s' % [c['name'] for c in bad_can])
    tripped = [c for c in can if c['status'] == 'tripped']
    if not res['failures'] and len(tripped) < min(2, len(can)):
        guard_problems.append('fewer than two canaries could be run on this tree')
    if res['verified'] + res['errors'] == 0:
        guard_problems.append('zero obligations generated')

    # ---- bounded end-to-end stand-ins on the real crate (started before the Verus unit, collected here)
    violations = []
    known_lines = []
    kf = load_known_findings()
    try:
        bounded, native_w = fut_native.result()
    except Undecided as e:
        return undecided(prop, tier, t0, str(e))
    for oblig, where, w in native_w:
        if prop == 'C02' and matches_known(kf, prop, oblig, w, known_lines):
            continue
        path = write_replay(prop, oblig, where, 'native driver (bounded stand-in, real crate)', w['observed'], w,
                            './check %s --replay <this file>' % prop)
        violations.append((path, True))

    # ---- tree builder (Kani, bounded)
    bt_undecided = []
    bt_seen, bt_witness = set(), [None]
    if bt:
        results, pairs = bt
        for r in results:
            entry = {'what': 'Kani: %s' % r['harness'].split('::')[-1], 'status': r['status'], 'checks': r.get('n_checks'),
                     'covers': r['covers'], 'cbmc_s': r.get('cbmc_s'),
                     'bound': ('real Parser::build_tree, rowan builder stubbed by recording stubs; N raw one-byte tokens with symbolic kinds over {WHITESPACE, COMMENT, COMMENT_STATEMENT, COMMENT_MODULE, IDENT}, one enumerated event shape'
                               if 'build_tree' in r['harness'] else ('every remainder of <= 3 characters over {", \\, a, U+00DF, U+1F4A3, LF} (259 strings, symbolic choice)' if 'lex_string' in r['harness'] else 'token vector of length <= 3, everything else symbolic'))}
            bounded.append(entry)
            if r['status'] in ('ERROR', 'TIMEOUT'):
                bt_undecided.append(r['harness'])
            elif r['status'] == 'FAILED':
                if bt_witness[0] is None:
                    try:
                        bt_witness[0] = witness.enumerate_inputs(3, 240, seed())[0] or False
                    except Undecided:
                        bt_witness[0] = False
                w = bt_witness[0] or None
                for fcheck in r['failed_checks']:
                    if 'build_tree' not in r['harness'] and 'lex_string' not in r['harness'] and not any(k in fcheck['description'] for k in ('leaves', 'pushes no event', 'nth ')):
                        entry.setdefault('other_property_failures', []).append(fcheck['description'] + ' (error-range clause: C20)')
                        continue
                    key = ('build_tree' if 'build_tree' in r['harness'] else r['harness'], fcheck['description'])
                    if key in bt_seen:
                        continue
                    bt_seen.add(key)
                    path = write_replay(prop, 'parser_kani :: %s :: %s' % (r['harness'].split('::')[-1], fcheck['description']),
                                        'crates/syntax/src/parser.rs (Parser::build_tree)' if 'build_tree' in r['harness'] else ('crates/syntax/src/lexer.rs (lex_string)' if 'lex_string' in r['harness'] else 'crates/syntax/src/parser.rs (Parser::nth / Parser::error)'),
                                        'kani 0.68.0 / cbmc 6.11', json.dumps(fcheck), w, './check %s --replay <this file>' % prop)
                    violations.append((path, w is not None))
            elif r['covers'] and r['covers'][0] != r['covers'][1]:
                guard_problems.append('%s: cover not satisfied' % r['harness'])

    # ---- violations from the verifier
    real = [f for f in mine if f not in needs_contract]
    want = ('lossy',) if prop == 'C01' else ('panic', 'hang', 'abort')
    w = None
    if real or needs_contract:
        try:
            k, budget = (3, 90) if tier == 'quick' else (4, 600)
            w = witness.search(k, budget, seed=seed(), kinds=want)
        except Undecided:
            w = None
    if needs_contract and w:
        # a failure inside / at a function without explicit contract is normally "needs contract" (exit 2);
        # with a concrete failing input on the real code it is a violation
        real = real + needs_contract
        needs_contract = []
    # one VIOLATION line per function; the replay file lists every failed obligation of that function
    by_fn = {}
    for f in real:
        by_fn.setdefault(f['fn'], []).append(f)
    for fn, fs in by_fn.items():
        f = fs[0]
        name, where = repo_location(ex, linemap, f)
        path = write_replay(prop, f['id'], where, 'verus 0.2026.09.13',
                            '\n'.join(x['rendered'] for x in fs), w,
                            './check %s --replay <this file>' % prop)
        if len(fs) > 1:
            r = json.load(open(path))
            r['further_failed_obligations_in_this_function'] = [x['id'] for x in fs[1:]]
            json.dump(r, open(path, 'w'), indent=1)
        violations.append((path, w is not None))

    pmod = pmodc = None
    if fut_pmod:
        try:
            pmod, pmodc = fut_pmod.result(), fut_pmodc.result()
        except Undecided as e:
            pmod, pmodc = {'unit': 'pmod', 'status': 'undecided', 'why': str(e)[:400]}, None
        if pmod['status'] == 'failed':
            seen_fn = set()
            for f in pmod['failures']:
                if f['fn'] in seen_fn:
                    continue
                seen_fn.add(f['fn'])
                path = write_replay(prop, f['id'], f['where'], 'verus 0.2026.09.13', '\n'.join(x['rendered'] for x in pmod['failures'] if x['fn'] == f['fn']), None,
                                    './check %s --replay <this file>' % prop)
                violations.append((path, False))
        elif pmod['status'] == 'verified':
            if pmod.get('reachability_guard') != 'rejected-as-required':
                guard_problems.append('pmod unit: precondition reachability guard: %s' % pmod.get('reachability_guard'))
            if pmodc and pmodc['status'] == 'NOT-TRIPPED':
                guard_problems.append('pmod unit: canary not detected')

    wall = time.time() - t0
    n_obl = res['verified'] + res['errors']
    cov = {
        'obligations': n_obl,
        'discharged': res['verified'],
        'checker_cmd': res['cmd'] + '   (unit generated from /repo working tree by tools/extract_parser.py + tools/weave.py)',
        'trusted_base': assumptions_found + ([('side unit pmod (C01): the trivia-filter statement of parse_module (R29) is %s - from "raw tokens carry token kinds only" it establishes, textually, the two facts verif_parse requires (token vector length == number of non-trivia raw tokens; every parser token has a token kind); assumed there: the standard meaning of Vec clone/into_iter/filter/collect (external_body helper whose body is that chain)' % (pmod['status'] if pmod['status'] != 'undecided' else 'UNDECIDED in this run (%s); the two facts stay assumptions' % pmod.get('why', '')[:200]))] if pmod else []) + [
            'Parser::error and Parser::nth are verified in place (error after R19: its closure with a reference-pattern parameter is desugared into a variable + let; nth on the R10-rewritten text); the Kani harnesses error_contract / nth_contract check the same contracts on the un-rewritten text, i.e. they validate R19 and R10; rowan::TextRange / TextSize are two-field stand-in structs (TextRange::empty, TextSize::from(u32) with their obvious meaning)',
            'token vector length + 8 <= usize::MAX (requires of verif_top / verif_parse; a Vec of 40-byte LexTokens cannot be longer than isize::MAX / 40)',
            'glue lines of parse_module that are not extracted: lexing (tokens_raw) and the trivia filter; from them verif_parse takes `tokens.len() == number of non-trivia raw tokens` and `every parser token has a token kind`',
            'rowan GreenNodeBuilder specified by its call trace (contracts/parser_stubs.rs): start_node/token/finish_node append to the trace, finish() requires a single-root balanced trace; text-size str[TextRange] uninterpreted; std take_while/count and Option::map_or by assume_specification',
            'logos lexer: token spans non-empty, contiguous from 0 to len, on char boundaries, token kinds only (assumption i); the one piece of glas code inside the lexer, the callback lexer::lex_string, is checked by a bounded Kani harness (bumps inside the remainder, to a character boundary, just after an unescaped quote; no bump on failure)',
            'rowan GreenNodeBuilder: a balanced call sequence yields a tree whose leaves are the token() calls in order (assumption iii)',
            'parse_module glue: lexing and trivia filtering lines (the Parser literal itself is extracted and verified in verif_top)',
            'rewrite R10 (DESIGN.md 0.6): the progress-guard fuel `Cell<u32>` is verified as a plain `u32` field with `&mut self` receivers on nth/at/at_any; with it Verus PROVES that the fuel never reaches 0 (every call of Parser::nth satisfies `fuel > 0`), i.e. the "parser is stuck" panic is unreachable for every input - the contract of Parser::nth (burns exactly one unit, changes nothing else) is proved by Verus on the rewritten text and checked by Kani on the real Cell-based text',
            'machine stack: recursion depth is proved bounded by (MAX_DEPTH+1) x 16 frames; that this fits the thread stack is measured, not proved',
            'Verus, Z3 and the rewrites R1-R9 of DESIGN.md section 2.2',
        ],
        'functions_under_contract': info['contracted'],
        'functions_under_contract_locations': sorted('%s (%s:%d)' % (nm, path, line) for (_lo, _hi, path, line, nm) in linemap if nm in info['contracted']),
        'functions_with_default_frame_contract': info['defaulted'],
        'loops_under_contract': info['loops_contracted'],
        'contract_anchors_no_longer_in_the_tree': info['dropped_anchors'],
        'inferred_contracts_for_functions_without_entry': info.get('inferred_contracts', {}),
        'inference_log': info.get('inference_log', []),
        'back_end': 'Verus 0.2026.09.13 / Z3',
        'parse_module_glue_unit': ({k: v for k, v in pmod.items() if k != 'per_function_ms'} if pmod else None),
        'parse_module_glue_unit_canary': pmodc,
        'solver_time_ms': res['smt_ms'],
        'verus_total_ms': res['total_ms'],
        'per_function_ms': {k: round(v['ms'], 1) for k, v in sorted(res['func_times'].items())},
        'failed_obligations_this_property': [{'id': f['id'], 'props': f['props']} for f in mine],
        'failed_obligations_other_property': [{'id': f['id'], 'props': f['props']} for f in others],
        'undecided_needs_contract': [f['id'] for f in needs_contract],
        'reachability_guard': reach,
        'canaries': can,
        'bounded_checks': bounded,
        'samples': sorted(res['func_times'].keys())[:12],
        'extraction_dropped': ex['dropped'],
        'tree_builder': {'verified_in_this_unit': bool(info.get('tree_builder_in_unit')), 'fallback_reason': info.get('tree_builder_fallback_reason'),
                         'rewrites': ex.get('rewrites_build_tree'), 'optional_clauses_dropped': info.get('optional_clauses_dropped')},
        'closures_under_contract': info.get('closures_contracted'),
        'contracts_assumed_in_this_run_by_fallback': info.get('assumed_in_this_run'),
    }
    write_evidence(prop, tier, 'proof', cov,
                   ['see coverage.trusted_base'], wall, len(violations),
                   {'known_findings_matched': known_lines})
    if bt_undecided and not violations:
        finish(prop, [], known_lines, 'bounded tree-builder harness(es) not decided by Kani (timeout / CBMC error): %s' % bt_undecided)
    if guard_problems:
        finish(prop, [], known_lines, 'vacuity/assumption guard failed: ' + '; '.join(guard_problems))
    if needs_contract and not violations:
        finish(prop, [], known_lines, 'obligation failed in or at a function that has no explicit contract (needs contract, not a bug): '
               + '; '.join(f['id'] for f in needs_contract)[:600])
    finish(prop, violations, known_lines)


def matches_known(kf, prop, oblig, w, known_lines):
    for k in kf.get('findings', []):
        if k.get('property') == prop and k.get('obligation') == oblig:
            known_lines.append(k.get('what', oblig))
            return True
    return False


def undecided_with_probes(prop, tier, t0, msg):
    """The deductive part could not be built for this tree (lost anchor, construct outside the extractor / Verus).
    That is exit 2 - unless the bounded native probes on the real crate find a concrete failing input: a panic, hang,
    abort or lossy tree reproduced on the real code is a violation whatever the state of the proof."""
    w = None
    try:
        if prop == 'C02':
            w, _ = deep_probe(tier)
            if w and w['kind'] not in ('panic', 'hang', 'abort'):
                w = None
            if not w:
                w = witness.search(3, 60, seed=seed(), kinds=('panic', 'hang', 'abort'))
        else:
            w = witness.search(3, 90, seed=seed(), kinds=('lossy',))
    except Undecided:
        w = None
    if not w:
        return undecided(prop, tier, t0, msg)
    oblig = 'parser :: bounded-check (deductive part undecided) :: %s' % (w.get('input_recipe') or w['kind'])
    path = write_replay(prop, oblig, 'crates/syntax/src/parser.rs', 'native driver (bounded stand-in, real crate); deductive part UNDECIDED: ' + msg[:600],
                        w['observed'], w, './check %s --replay <this file>' % prop)
    write_evidence(prop, tier, 'proof',
                   {'obligations': 0, 'discharged': 0, 'checker_cmd': 'verus (not reached)', 'trusted_base': [],
                    'explanation': 'deductive part UNDECIDED (%s); the bounded native probe found a failing input on the real crate' % msg[:800],
                    'evaluations': 1, 'distinct_nontrivial': 1, 'samples': [w.get('input_recipe') or w['input'][:200]]},
                   [], time.time() - t0, 1)
    finish(prop, [(path, True)], [])


def undecided(prop, tier, t0, msg):
    write_evidence(prop, tier, 'proof',
                   {'obligations': 0, 'discharged': 0, 'checker_cmd': 'verus (not reached)', 'trusted_base': [],
                    'explanation': 'UNDECIDED: ' + msg[:1500], 'evaluations': 1, 'distinct_nontrivial': 2},
                   [], time.time() - t0, 0)
    finish(prop, [], [], msg[:1500])


def replay(prop, path):
    r = json.load(open(path))
    w = r.get('witness')
    if not w:
        print('replay: no concrete witness in %s; failed obligation: %s' % (path, r.get('obligation')))
        print(r.get('verifier_output', ''))
        return 1
    text = w['input']
    if w.get('input_recipe'):
        nm, n = w['input_recipe'].rsplit(' x ', 1)
        text = witness.deep_input(nm, int(n))
    res = witness.run_one(text)
    if res:
        print('replay: reproduces on the working tree: %s: %s' % (res['kind'], res['observed'][:300]))
        return 1
    print('replay: input parses without symptom on the working tree')
    return 0
